/-
  Whole-run theorems for the complete model of `DirectAlgorithm` (GFO.Model.Direct), through the real driver model, for
  every configuration, objective, call, prior state and tape:

    C01_C02_direct_positions       every position a call evaluates is a feasible position of the space (every sub-space is
                                   a box of positions of the space, so is its centre; the repair is `move_climb`)
    C19_direct_tracker_grounded    the tracked pairs and valid lists are really evaluated pairs
-/
import GFO.Model.Direct
import GFO.Props.SimplexRuns
namespace GFO.DirectRuns
open GFO GFO.C01 GFO.C19 GFO.LocalRuns GFO.PopRuns GFO.EvoRuns

/-- a box of positions of the space: one list per dimension, every entry a valid index of that dimension -/
def BoxIn (sizes : List Nat) (dims : List (List Int)) : Prop :=
  List.Forall₂ (fun (d : List Int) (n : Nat) => ∀ x ∈ d, 0 ≤ x ∧ x < (n : Int)) dims sizes

theorem center_inBox : ∀ (sizes : List Nat) (dims : List (List Int)) (c : Pos), BoxIn sizes dims →
    dims.mapM midOf = .ok c → inBox sizes c = true := by
  intro sizes dims
  induction dims generalizing sizes with
  | nil =>
    intro c hb h
    cases hb
    simp only [List.mapM_nil, pure, Except.pure, Except.ok.injEq] at h
    subst h; rfl
  | cons d ds ih =>
    intro c hb h
    cases hb with
    | cons hd htl =>
      rename_i n ns
      simp only [List.mapM_cons, bind, Except.bind, pure, Except.pure] at h
      cases hx : d[d.length / 2]? with
      | none => simp [midOf, hx] at h
      | some x =>
        simp only [midOf, hx] at h
        cases hr : ds.mapM midOf with
        | error e => rw [hr] at h; simp at h
        | ok cs =>
          rw [hr] at h
          simp only [Except.ok.injEq] at h
          subst h
          have hxm := hd x (List.mem_of_getElem? hx)
          simp only [inBox, Bool.and_eq_true, decide_eq_true_eq]
          exact ⟨⟨hxm.1, hxm.2⟩, ih ns cs htl hr⟩

theorem biggestDim_suffix : ∀ (dims : List (List Int)) (k largest best : Nat) (tape rest : Tape) (b : Nat),
    biggestDim dims k largest best tape = .ok (b, rest) → rest <:+ tape := by
  intro dims
  induction dims with
  | nil =>
    intro k largest best tape rest b h
    simp only [biggestDim, Except.ok.injEq, Prod.mk.injEq] at h
    obtain ⟨_, rfl⟩ := h
    exact List.suffix_refl _
  | cons d ds ih =>
    intro k largest best tape rest b h
    unfold biggestDim at h
    split at h
    · cases htape : tape with
      | nil => rw [htape] at h; simp at h
      | cons x xs =>
        rw [htape] at h
        cases x with
        | int bb =>
          simp only at h
          split at h
          · exact (ih _ _ _ _ _ _ h).trans (List.suffix_cons _ _)
          · exact (ih _ _ _ _ _ _ h).trans (List.suffix_cons _ _)
        | unif _ => simp at h
        | climb _ _ => simp at h
        | dist _ _ => simp at h
        | rnd _ => simp at h
        | feas _ _ => simp at h
        | accept _ _ => simp at h
        | part _ _ => simp at h
        | spiral _ => simp at h
        | sorted _ => simp at h
        | npunif _ => simp at h
        | choice _ => simp at h
        | mutant _ => simp at h
        | parents _ => simp at h
        | inits _ => simp at h
        | vec _ => simp at h
    · split at h
      · exact ih _ _ _ _ _ _ h
      · exact ih _ _ _ _ _ _ h

/-- a sub-space of the model: a box of the space whose centre is a position of the space -/
structure SubIn (sp : Space) (sb : Sub) : Prop where
  box : BoxIn sp.sizes sb.dims
  center : InSpace sp sb.center

theorem mkSub_spec {sp : Space} {dims : List (List Int)} {tape rest : Tape} {sb : Sub} (hb : BoxIn sp.sizes dims)
    (h : mkSub dims tape = .ok (sb, rest)) : rest <:+ tape ∧ SubIn sp sb ∧ sb.dims = dims := by
  unfold mkSub at h
  cases hc : dims.mapM midOf with
  | error e => rw [hc] at h; simp at h
  | ok c =>
    rw [hc] at h
    simp only at h
    cases hbd : biggestDim dims 0 0 0 tape with
    | error e => rw [hbd] at h; simp at h
    | ok a =>
      rw [hbd] at h
      simp only [Except.ok.injEq, Prod.mk.injEq] at h
      obtain ⟨rfl, rfl⟩ := h
      exact ⟨biggestDim_suffix _ _ _ _ _ _ _ (show biggestDim dims 0 0 0 tape = .ok (a.1, a.2) from hbd),
        { box := hb, center := center_inBox _ _ _ hb hc }, rfl⟩

theorem boxIn_set {sizes : List Nat} {dims : List (List Int)} (hb : BoxIn sizes dims) (k : Nat) (part : List Int)
    (hp : ∀ x ∈ part, x ∈ dims.getD k []) : BoxIn sizes (dims.set k part) := by
  unfold BoxIn at *
  induction hb generalizing k with
  | nil => simp
  | cons hd htl ih =>
    rename_i d n ds ns
    cases k with
    | zero =>
      simp only [List.set_cons_zero]
      exact List.Forall₂.cons (fun x hx => hd x (by simpa using hp x hx)) htl
    | succ k' =>
      simp only [List.set_cons_succ]
      exact List.Forall₂.cons hd (ih k' (fun x hx => by simpa using hp x hx))

theorem arraySplit3_sub (arr : List Int) : ∀ part ∈ arraySplit3 arr, ∀ x ∈ part, x ∈ arr := by
  intro part hpart x hx
  unfold arraySplit3 at hpart
  simp only [List.mem_cons, List.mem_nil_iff, or_false] at hpart
  rcases hpart with rfl | rfl | rfl
  · exact List.mem_of_mem_take hx
  · exact List.mem_of_mem_drop (List.mem_of_mem_take hx)
  · exact List.mem_of_mem_drop hx

theorem mkChildren_spec {sp : Space} {parent : Sub} (hpar : SubIn sp parent) {parts : List (List Int)} {acc kids : List Sub}
    {tape rest : Tape} (hparts : ∀ part ∈ parts, ∀ x ∈ part, x ∈ parent.dims.getD parent.biggest [])
    (hacc : ∀ sb ∈ acc, SubIn sp sb) (h : mkChildren parent parts acc tape = .ok (kids, rest)) :
    rest <:+ tape ∧ ∀ sb ∈ kids, SubIn sp sb := by
  induction parts generalizing acc tape with
  | nil =>
    simp only [mkChildren, Except.ok.injEq, Prod.mk.injEq] at h
    obtain ⟨rfl, rfl⟩ := h
    exact ⟨List.suffix_refl _, hacc⟩
  | cons part parts ih =>
    unfold mkChildren at h
    have hrest : ∀ pt ∈ parts, ∀ x ∈ pt, x ∈ parent.dims.getD parent.biggest [] := fun pt hpt => hparts pt (List.mem_cons_of_mem _ hpt)
    cases hm : mkSub (parent.dims.set parent.biggest part) tape with
    | error e =>
      rw [hm] at h
      cases e with
      | indexError => exact ih hrest hacc h
      | zeroDivision => simp at h
      | valueError => simp at h
      | keyError => simp at h
      | needMore => simp at h
      | other _ => simp at h
    | ok a =>
      rw [hm] at h
      simp only at h
      obtain ⟨s1, i1, _⟩ := mkSub_spec (sp := sp) (boxIn_set hpar.box parent.biggest part (hparts part (by simp)))
        (show mkSub (parent.dims.set parent.biggest part) tape = .ok (a.1, a.2) from hm)
      obtain ⟨s2, i2⟩ := ih hrest
        (by intro sb hsb; rcases List.mem_append.mp hsb with hsb | hsb
            · exact hacc sb hsb
            · simp at hsb; subst hsb; exact i1) h
      exact ⟨s2.trans s1, i2⟩

/-- the run invariant -/
structure Inv (sp : Space) (tape0 : Tape) (initL0 : List Pos) (d : DState DirSt) : Prop where
  tape : d.bst.tape <:+ tape0
  initL : d.bst.initL = initL0
  len : d.posL.length = d.scoreL.length
  grounded : Grounded (evalLog d) d.bst.tr
  subsIn : ∀ sb ∈ d.bst.subs, SubIn sp sb

theorem dirPropose_spec {sp : Space} {s s' : DirSt} {p : Pos} (hsub : ∀ sb ∈ s.subs, SubIn sp sb)
    (h : dirPropose s = .ok (p, s')) :
    s'.tape <:+ s.tape ∧ s'.tr = s.tr ∧ s'.initL = s.initL ∧ s'.X = s.X ∧ InSpace sp p ∧ (∀ sb ∈ s'.subs, SubIn sp sb) := by
  unfold dirPropose at h
  cases hf : s.subs.findIdx? (fun x => x.score.isNone) with
  | some i =>
    rw [hf] at h
    simp only at h
    cases hi : s.subs[i]? with
    | none => rw [hi] at h; simp at h
    | some sb =>
      rw [hi] at h
      simp only [Except.ok.injEq, Prod.mk.injEq] at h
      obtain ⟨rfl, rfl⟩ := h
      exact ⟨List.suffix_refl _, rfl, rfl, rfl, (hsub sb (List.mem_of_getElem? hi)).center, hsub⟩
  | none =>
    rw [hf] at h
    simp only at h
    cases hsel : selectSub s.subs with
    | none => rw [hsel] at h; simp at h
    | some j =>
      rw [hsel] at h
      simp only at h
      cases hj : s.subs[j]? with
      | none => rw [hj] at h; simp at h
      | some parent =>
        rw [hj] at h
        simp only at h
        have hpar := hsub parent (List.mem_of_getElem? hj)
        cases hk : mkChildren parent (arraySplit3 (parent.dims.getD parent.biggest [])) [] s.tape with
        | error e => rw [hk] at h; simp at h
        | ok a =>
          rw [hk] at h
          simp only at h
          obtain ⟨s1, i1⟩ := mkChildren_spec hpar (arraySplit3_sub _) (by intro sb hsb; simp at hsb)
            (show mkChildren parent _ [] s.tape = .ok (a.1, a.2) from hk)
          have hall : ∀ sb ∈ (s.subs ++ a.1).eraseIdx j, SubIn sp sb := by
            intro sb hsb
            have := List.mem_of_mem_eraseIdx hsb
            rcases List.mem_append.mp this with hm | hm
            · exact hsub sb hm
            · exact i1 sb hm
          cases hl : ((s.subs ++ a.1).eraseIdx j).getLast? with
          | none => rw [hl] at h; simp at h
          | some lastSub =>
            rw [hl] at h
            simp only [Except.ok.injEq, Prod.mk.injEq] at h
            obtain ⟨rfl, rfl⟩ := h
            exact ⟨s1, rfl, rfl, rfl, (hall lastSub (List.mem_of_getLast? hl)).center, hall⟩

theorem dirIterate_spec {cfg : DirCfg} {sp : Space} {f : Pos → Bool} (hgeo : cfg.geo = sp.geo) (hsp : SpaceOK sp)
    {s s' : DirSt} {p : Pos} (ht : TapeOK sp f s.tape) (hsub : ∀ sb ∈ s.subs, SubIn sp sb)
    (h : dirIterate cfg.geo cfg.epsMod s = .ok (p, s')) :
    s'.tape <:+ s.tape ∧ s'.tr = s.tr.trackNewPos p ∧ s'.initL = s.initL ∧ InSpace sp p ∧ f p = true ∧
    (∀ sb ∈ s'.subs, SubIn sp sb) := by
  unfold dirIterate at h
  cases h1 : dirPropose s with
  | error e => rw [h1] at h; simp at h
  | ok a =>
    rw [h1] at h
    simp only at h
    obtain ⟨hs1, htr1, hil1, _, hin1, hsub1⟩ := dirPropose_spec hsub (show dirPropose s = .ok (a.1, a.2) from h1)
    cases h2 : askFeas a.1 a.2.tape with
    | error e => rw [h2] at h; simp at h
    | ok b =>
      rw [h2] at h
      simp only at h
      have e2 := askFeas_spec (show askFeas a.1 a.2.tape = .ok (b.1, b.2) from h2)
      have hs2 : b.2 <:+ s.tape := (by rw [e2]; exact List.suffix_cons _ _ : b.2 <:+ a.2.tape).trans hs1
      by_cases hok : b.1 = true
      · simp only [hok, if_true, Except.ok.injEq, Prod.mk.injEq] at h
        obtain ⟨rfl, rfl⟩ := h
        have hfe : f a.1 = true := by
          have := (ht.suffix hs1).feas a.1 b.1 (by rw [e2]; simp); rw [← this]; exact hok
        exact ⟨hs2, by simp only; rw [htr1], hil1, hin1, hfe, hsub1⟩
      · simp only [hok, Bool.false_eq_true, if_false] at h
        cases h3 : moveClimb cfg.geo (some a.1) (some cfg.epsMod) s.tape.length b.2 with
        | error e => rw [h3] at h; simp at h
        | ok c =>
          rw [h3] at h
          simp only [Except.ok.injEq, Prod.mk.injEq] at h
          obtain ⟨rfl, rfl⟩ := h
          obtain ⟨a3, b3, c3⟩ := moveClimb_good hgeo hsp (ht.suffix hs2) h3
          exact ⟨a3.trans hs2, by simp only; rw [htr1], hil1, b3, c3, hsub1⟩

theorem subIn_modify {sp : Space} {subs : List Sub} (h : ∀ sb ∈ subs, SubIn sp sb) (i : Nat) (score : F) (b : F) :
    ∀ sb ∈ subs.modify i (fun sb => { sb with score := some score, bound := b }), SubIn sp sb := by
  intro sb hsb
  rw [List.mem_iff_getElem?] at hsb
  obtain ⟨k, hk⟩ := hsb
  rw [List.getElem?_modify] at hk
  cases hx : subs[k]? with
  | none => rw [hx] at hk; simp at hk
  | some x =>
    rw [hx] at hk
    have hxin := h x (List.mem_of_getElem? hx)
    by_cases hik : i = k
    · simp only [hik, if_true, Option.map_eq_map, Option.map_some, Option.some.injEq] at hk
      subst hk
      exact { box := hxin.box, center := hxin.center }
    · simp only [hik, if_false, Option.map_eq_map, Option.map_some, Option.some.injEq] at hk
      subst hk; exact hxin

theorem dirEvaluate_spec {sp : Space} {s s' : DirSt} {score : F} {log : Log} (g : Grounded log s.tr)
    (hsub : ∀ sb ∈ s.subs, SubIn sp sb) (h : dirEvaluate s score = .ok s') :
    s'.tape <:+ s.tape ∧ s'.initL = s.initL ∧ (∀ sb ∈ s'.subs, SubIn sp sb) ∧ Grounded (log ++ [(s.tr.posNew, score)]) s'.tr := by
  obtain ⟨g1, hp, _⟩ := grounded_setScoreNew g score
  have g2 := grounded_nthTrial (grounded_baseEvaluate g1 score (by rw [hp]; simp))
    (((s.tr.setScoreNew score).baseEvaluate score).nthTrial + 1)
  unfold dirEvaluate at h
  simp only at h
  split at h
  · simp only [Except.ok.injEq] at h; subst h; exact ⟨List.suffix_refl _, rfl, hsub, g2⟩
  · cases htape : s.tape with
    | nil => rw [htape] at h; simp at h
    | cons x rest =>
      rw [htape] at h
      cases x with
      | unif _ => simp at h
      | climb _ _ => simp at h
      | dist _ _ => simp at h
      | rnd _ => simp at h
      | feas _ _ => simp at h
      | accept _ _ => simp at h
      | part _ _ => simp at h
      | sorted _ => simp at h
      | int _ => simp at h
      | npunif _ => simp at h
      | choice _ => simp at h
      | mutant _ => simp at h
      | parents _ => simp at h
      | inits _ => simp at h
      | spiral _ => simp at h
      | vec v =>
        cases v with
        | nil => simp at h
        | cons b vs =>
          cases vs with
          | cons _ _ => simp at h
          | nil =>
            simp only [Except.ok.injEq] at h
            subst h
            refine ⟨List.suffix_cons _ _, rfl, ?_, g2⟩
            cases hc : s.cur with
            | none => simpa [hc] using hsub
            | some i => simpa [hc] using subIn_modify hsub i score b

/-- the body `evaluate_init` shares with the SMBO `evaluate` keeps the tracker grounded -/
theorem grounded_smboEvalBody {log : Log} {t : Tracker} (g : Grounded log t) (s : F) (hmem : (t.posNew, s) ∈ log) :
    Grounded log (smboEvalBody t s) := by
  unfold smboEvalBody
  have g2 : Grounded log (t.evaluateNew2current s) := by
    unfold Tracker.evaluateNew2current
    split
    · exact { best := g.best, current := Or.inr hmem, valid := g.valid, validLen := g.validLen }
    · exact g
  unfold Tracker.evaluateCurrent2best
  split
  · refine { best := ?_, current := g2.current, valid := g2.valid, validLen := g2.validLen }
    rcases g2.current with hc | hc
    · left; exact hc
    · right; exact hc
  · exact g2

theorem boxIn_whole : ∀ (sizes : List Nat), BoxIn sizes (sizes.map (fun n => (List.range n).map Int.ofNat)) := by
  intro sizes
  induction sizes with
  | nil => exact List.Forall₂.nil
  | cons n ns ih =>
    refine List.Forall₂.cons ?_ ih
    intro x hx
    simp only [List.mem_map, List.mem_range] at hx
    obtain ⟨k, hk, rfl⟩ := hx
    exact ⟨Int.natCast_nonneg k, by show (k : Int) < (n : Int); omega⟩

theorem step_inv {cfg : DirCfg} {sp : Space} {obj : Obj} {c : Call} {f : Pos → Bool} {tape0 : Tape} {initL0 : List Pos}
    (hgeo : cfg.geo = sp.geo) (hsz : cfg.sizes = sp.sizes) (hsp : SpaceOK sp) (ht : TapeOK sp f tape0)
    (hi : ∀ q ∈ initL0, InSpace sp q ∧ f q = true)
    (i : Nat) (d d1 : DState DirSt) (cs cs1 : CState) (p : Pos) (v : Value) (e : Eval)
    (hP : Inv sp tape0 initL0 d) (sf : StepFacts sp obj c i d d1 cs cs1 p v e)
    (hb : BStep (dirBackend cfg) (i < cs.nInitsNorm) d.bst d1.bst p e.res.score) :
    Inv sp tape0 initL0 d1 ∧ (InSpace sp p ∧ f p = true) := by
  have hlog := evalLog_append hP.len sf.posL sf.scoreL
  have hlen : d1.posL.length = d1.scoreL.length := by rw [sf.posL, sf.scoreL]; simp [hP.len]
  rcases hb with ⟨_, s1, h1, h2⟩ | ⟨_, s0, s1, h0, h1, h2⟩
  · -- start-up step
    have h1' : dirInitPos d.bst = .ok (p, s1) := h1
    unfold dirInitPos at h1'
    split at h1'
    · rename_i q hq
      simp only [Except.ok.injEq, Prod.mk.injEq] at h1'
      obtain ⟨rfl, rfl⟩ := h1'
      simp only [dirBackend, Except.ok.injEq] at h2
      have hmem : q ∈ initL0 := by rw [← hP.initL]; exact List.mem_of_getElem? hq
      refine ⟨{ tape := ?_, initL := ?_, len := hlen, grounded := ?_, subsIn := ?_ }, hi q hmem⟩
      · rw [← h2]; exact hP.tape
      · rw [← h2]; exact hP.initL
      · rw [← h2, hlog]
        have g1 := grounded_trackNewPos hP.grounded q
        obtain ⟨g2, hp2, _⟩ := grounded_setScoreNew g1 e.res.score
        have g3 := grounded_smboEvalBody g2 e.res.score (by rw [hp2]; simp)
        simpa [dirEvalInit, Tracker.trackNewPos] using grounded_nthTrial g3 _
      · rw [← h2]; exact hP.subsIn
    · simp at h1'
  · -- iteration step (possibly right after `finish_initialization`)
    have hs0 : s0.tape <:+ tape0 ∧ s0.initL = initL0 ∧ (∀ sb ∈ s0.subs, SubIn sp sb) ∧ s0.tr = d.bst.tr := by
      rcases h0 with h0 | h0
      · subst h0; exact ⟨hP.tape, hP.initL, hP.subsIn, rfl⟩
      · have h0' : dirFinishInit cfg.sizes d.bst = .ok s0 := h0
        unfold dirFinishInit at h0'
        cases hg : mkSub (cfg.sizes.map (fun n => (List.range n).map Int.ofNat)) d.bst.tape with
        | error e' => rw [hg] at h0'; simp at h0'
        | ok a =>
          rw [hg] at h0'
          simp only [Except.ok.injEq] at h0'
          subst h0'
          obtain ⟨a1, a2, _⟩ := mkSub_spec (sp := sp) (by rw [hsz]; exact boxIn_whole _)
            (show mkSub _ d.bst.tape = .ok (a.1, a.2) from hg)
          refine ⟨a1.trans hP.tape, hP.initL, ?_, rfl⟩
          intro sb hsb
          rcases List.mem_append.mp hsb with hm | hm
          · exact hP.subsIn sb hm
          · simp at hm; subst hm; exact a2
    obtain ⟨hst, hsi, hsub0, hstr⟩ := hs0
    have h1' : dirIterate cfg.geo cfg.epsMod s0 = .ok (p, s1) := h1
    obtain ⟨b1, b2, b3, b4, b5, b6⟩ := dirIterate_spec hgeo hsp (ht.suffix hst) hsub0 h1'
    have g1 : Grounded (evalLog d) s1.tr := by rw [b2, hstr]; exact grounded_trackNewPos hP.grounded p
    have h2' : dirEvaluate s1 e.res.score = .ok d1.bst := h2
    obtain ⟨c1, c2, c3, c4⟩ := dirEvaluate_spec g1 b6 h2'
    refine ⟨{ tape := (c1.trans b1).trans hst, initL := by rw [c2, b3]; exact hsi, len := hlen, grounded := ?_, subsIn := c3 },
      b4, b5⟩
    rw [hlog]
    have : s1.tr.posNew = some p := by rw [b2]; rfl
    rw [this] at c4
    exact c4

/-- C01 + C02 + C19 for one `search()` call of the complete DIRECT algorithm -/
theorem direct_call {cfg : DirCfg} {sp : Space} {obj : Obj} {c : Call} {f : Pos → Bool} {tape0 : Tape} {initL0 : List Pos}
    {d d' : DState DirSt} {r : CallResult}
    (hgeo : cfg.geo = sp.geo) (hsz : cfg.sizes = sp.sizes) (hsp : SpaceOK sp) (ht : TapeOK sp f tape0)
    (hi : ∀ q ∈ initL0, InSpace sp q ∧ f q = true)
    (hP : Inv sp tape0 initL0 d) (hn : 0 < c.nIter) (h : searchCall (dirBackend cfg) sp obj c d = .ok (d', r)) :
    Inv sp tape0 initL0 d' ∧ ∀ p ∈ C04.newPos d d', InSpace sp p ∧ f p = true := by
  obtain ⟨cs, d1, cs1, tr, _, hfin, T, hP1, hQ⟩ :=
    searchCall_inv (P := fun d _ => Inv sp tape0 initL0 d) (Q := fun t => InSpace sp t.pos ∧ f t.pos = true)
      (fun i d d1 cs cs1 p v e hp sf hb => step_inv hgeo hsz hsp ht hi i d d1 cs cs1 p v e hp sf hb) h hn (fun _ _ => hP)
  obtain ⟨hrows, hposL, hscoreL, _, _, _, _, _, _, _, hbst, _⟩ := finishSearch_ok hfin
  constructor
  · exact { tape := by rw [hbst]; exact hP1.tape, initL := by rw [hbst]; exact hP1.initL
            len := by rw [hposL, hscoreL]; exact hP1.len
            grounded := by
              have := hP1.grounded
              unfold evalLog at this ⊢
              rw [hposL, hscoreL, hbst]; exact this
            subsIn := by rw [hbst]; exact hP1.subsIn }
  · intro p hp
    unfold C04.newPos at hp
    rw [hposL, T.posL] at hp
    simp only [List.drop_left] at hp
    obtain ⟨t, ht', rfl⟩ := List.mem_map.mp hp
    exact hQ t ht'

theorem C01_C02_direct_positions {cfg : DirCfg} {sp : Space} {obj : Obj} {c : Call} {f : Pos → Bool} {tape0 : Tape}
    {initL0 : List Pos} {d d' : DState DirSt} {r : CallResult}
    (hgeo : cfg.geo = sp.geo) (hsz : cfg.sizes = sp.sizes) (hsp : SpaceOK sp) (ht : TapeOK sp f tape0)
    (hi : ∀ q ∈ initL0, InSpace sp q ∧ f q = true)
    (hP : Inv sp tape0 initL0 d) (hn : 0 < c.nIter) (h : searchCall (dirBackend cfg) sp obj c d = .ok (d', r)) :
    ∀ p ∈ C04.newPos d d', InSpace sp p ∧ f p = true :=
  (direct_call hgeo hsz hsp ht hi hP hn h).2

theorem C19_direct_tracker_grounded {cfg : DirCfg} {sp : Space} {obj : Obj} {c : Call} {f : Pos → Bool} {tape0 : Tape}
    {initL0 : List Pos} {d d' : DState DirSt} {r : CallResult}
    (hgeo : cfg.geo = sp.geo) (hsz : cfg.sizes = sp.sizes) (hsp : SpaceOK sp) (ht : TapeOK sp f tape0)
    (hi : ∀ q ∈ initL0, InSpace sp q ∧ f q = true)
    (hP : Inv sp tape0 initL0 d) (hn : 0 < c.nIter) (h : searchCall (dirBackend cfg) sp obj c d = .ok (d', r)) :
    Grounded (evalLog d') d'.bst.tr :=
  (direct_call hgeo hsz hsp ht hi hP hn h).1.grounded

/-- every sub-space the run ever holds is a box of positions of the space -/
theorem direct_subspaces_in_space {cfg : DirCfg} {sp : Space} {obj : Obj} {c : Call} {f : Pos → Bool} {tape0 : Tape}
    {initL0 : List Pos} {d d' : DState DirSt} {r : CallResult}
    (hgeo : cfg.geo = sp.geo) (hsz : cfg.sizes = sp.sizes) (hsp : SpaceOK sp) (ht : TapeOK sp f tape0)
    (hi : ∀ q ∈ initL0, InSpace sp q ∧ f q = true)
    (hP : Inv sp tape0 initL0 d) (hn : 0 < c.nIter) (h : searchCall (dirBackend cfg) sp obj c d = .ok (d', r)) :
    ∀ sb ∈ d'.bst.subs, SubIn sp sb :=
  (direct_call hgeo hsz hsp ht hi hP hn h).1.subsIn

theorem inv_fresh (sp : Space) (nInits : Nat) (initL : List Pos) (tape : Tape) :
    Inv sp tape initL ({ nInits := nInits, bst := { initL := initL, tape := tape } } : DState DirSt) :=
  { tape := List.suffix_refl _, initL := rfl, len := rfl, grounded := by simpa [evalLog] using grounded_fresh
    subsIn := by intro q hq; simp at hq }

/-! ### the premises are satisfiable: a concrete run (start-up point, the whole space as first sub-space, one split) -/
def exSpace : Space := { names := ["x"], dims := [[0, 1, 2, 3, 4]] }
def exCfg : DirCfg := { sizes := exSpace.sizes, epsMod := 3/10, geo := exSpace.geo }
def exTape : Tape :=
  [.feas [2] true, .vec [.fin 1],       -- the centre of the whole space, and its bound
   .feas [4] true, .vec [.fin 1]]       -- after the split into [0,1] [2,3] [4]: the centre of the last child
def exObj : Obj := fun _ _ _ => ({ score := .fin 1, metrics := [] }, 0)
def exD : DState DirSt := { nInits := 1, bst := { initL := [[2]], tape := exTape } }

theorem direct_example_run :
    (match searchCall (dirBackend exCfg) exSpace exObj { nIter := 3, memory := .off } exD with
     | .ok (d', _) => decide (d'.posL = [[2], [2], [4]]) && decide (d'.bst.subs.map (·.center) = [[1], [3], [4]]) &&
                      d'.bst.tape.isEmpty
     | .error _ => false) = true := by
  decide +kernel

end GFO.DirectRuns
