/-
  C13 — early_stopping stops exactly per its documented no-improvement rule.

  `noChange` is the model of `_stop_run.no_change` (after the zero-baseline fix e682c03). For every finite score
  list, every n ≥ 1 and every combination of tolerances it never raises and returns `true` exactly when the
  documented rule `Spec` holds. `noChangeLegacy` is the form at the pinned commit; its witness shows the defect.
-/
import GFO.Proofs.Stop
import GFO.Proofs.Best
namespace GFO.C13
open GFO

/-- the documented rule, verbatim: more than `n` steps, and the best of the last `n` steps does not exceed the best of
    all earlier steps, or exceeds it by less than `tol_abs`, or by less than `tol_rel` percent of the earlier best's
    magnitude (an improvement over a zero baseline is never "less than x percent of 0") -/
def Spec (qs : List Rat) (n : Nat) (ta tr : Option Rat) : Prop :=
  qs.length > n ∧
  ∃ bl be, IsMaxOf bl (qs.drop (qs.length - n)) ∧ IsMaxOf be (qs.take (qs.length - n)) ∧
    (bl ≤ be ∨ (∃ a, ta = some a ∧ bl - be < a) ∨ (∃ r, tr = some r ∧ be ≠ 0 ∧ (bl - be) / absQ be * 100 < r))

private theorem isMax_whole {x : Rat} {a b : List Rat} {bl be : Rat}
    (hbe : IsMaxOf be (x :: a)) (hbl : IsMaxOf bl b) (hgt : be < bl) : IsMaxOf bl (x :: (a ++ b)) := by
  constructor
  · have := hbl.1; simp [this]
  · intro y hy
    have : y ∈ (x :: a) ∨ y ∈ b := by
      rcases List.mem_cons.mp hy with h | h
      · left; simp [h]
      · rcases List.mem_append.mp h with h | h
        · left; simp [h]
        · right; exact h
    rcases this with h | h
    · have := hbe.2 y h; grind
    · exact hbl.2 y h

/-- `no_change` never raises on finite scores and decides exactly the documented rule -/
theorem noChange_spec (flv : Flavour) (qs : List Rat) (n : Nat) (hn : 1 ≤ n) (ta tr : Option Rat) :
    ∃ b, noChange flv (qs.map F.fin) { n := some n, tolAbs := ta.map F.fin, tolRel := tr.map F.fin } = .ok b ∧
      (b = true ↔ Spec qs n ta tr) := by
  by_cases hlen : qs.length ≤ n
  · refine ⟨false, ?_, ?_⟩
    · simp [noChange, hlen]
    · simp only [Bool.false_eq_true, false_iff]
      intro h; have := h.1; omega
  · -- split the list into the part before the window (non-empty) and the window (non-empty)
    have hk1 : 1 ≤ qs.length - n := by omega
    have hsplit : qs = qs.take (qs.length - n) ++ qs.drop (qs.length - n) := (List.take_append_drop _ _).symm
    generalize hA : qs.take (qs.length - n) = A at hsplit
    generalize hB : qs.drop (qs.length - n) = B at hsplit
    have hAlen : A.length = qs.length - n := by rw [← hA, List.length_take]; omega
    have hBlen : B.length = n := by rw [← hB, List.length_drop]; omega
    cases A with
    | nil => simp at hAlen; omega
    | cons x pre =>
      cases B with
      | nil => simp at hBlen; omega
      | cons y ys =>
        have hq : qs = x :: (pre ++ y :: ys) := by rw [hsplit]; simp
        have hbe := maxQ_isMax x pre
        have hbl := maxQ_isMax y ys
        have hall := maxQ_isMax x (pre ++ y :: ys)
        have hlenq : qs.length = (x :: pre).length + n := by
          rw [hq]; simp at hBlen ⊢; omega
        -- the pieces `noChange` computes
        have e1 : pyMax (qs.map F.fin) = .ok (.fin (maxQ x (pre ++ y :: ys))) := by rw [hq]; exact pyMax_fin _ _
        have e2 : npArgmax (qs.map F.fin) = argmaxQ x (pre ++ y :: ys) := by rw [hq]; exact npArgmax_fin _ _
        have e3 : pyMax ((qs.map F.fin).take (qs.length - n)) = .ok (.fin (maxQ x pre)) := by
          rw [← List.map_take, hA]; exact pyMax_fin _ _
        have key := argmaxQ_append_lt x pre (y :: ys)
        by_cases hdiff : argmaxQ x (pre ++ y :: ys) < (x :: pre).length
        · -- first maximum before the window: stop
          refine ⟨true, ?_, ?_⟩
          · simp only [noChange, List.length_map, hlen, if_false, e1, e2, bind, Except.bind, pure, Except.pure]
            have : qs.length - argmaxQ x (pre ++ y :: ys) > n := by omega
            simp [this]
          · simp only [true_iff]
            refine ⟨by omega, maxQ y ys, maxQ x pre, by rw [hB]; exact hbl, by rw [hA]; exact hbe, Or.inl ?_⟩
            exact (key.mp hdiff) _ hbl.1
        · -- the window holds a strictly better score
          have hex : ¬ ∀ z ∈ (y :: ys), z ≤ maxQ x pre := fun h => hdiff (key.mpr h)
          have hgt : maxQ x pre < maxQ y ys := by
            apply Classical.byContradiction
            intro hc
            apply hex
            intro z hz
            have := hbl.2 z hz
            grind
          have hmax : maxQ x (pre ++ y :: ys) = maxQ y ys := isMaxOf_unique hall (isMax_whole hbe hbl hgt)
          have hnd : ¬ (qs.length - argmaxQ x (pre ++ y :: ys) > n) := by omega
          refine ⟨tolB (maxQ y ys) (maxQ x pre) ta tr, ?_, ?_⟩
          · simp only [noChange, List.length_map, hlen, if_false, e1, e2, e3, hmax, bind, Except.bind, pure, Except.pure, hnd]
            exact noChangeTail_fin flv _ _ hgt (some n) ta tr
          · unfold tolB
            constructor
            · intro hb
              refine ⟨by omega, maxQ y ys, maxQ x pre, by rw [hB]; exact hbl, by rw [hA]; exact hbe, Or.inr ?_⟩
              simp only [Bool.or_eq_true] at hb
              rcases hb with hb | hb
              · left
                cases ta with
                | none => simp at hb
                | some a' => exact ⟨a', rfl, by simpa using hb⟩
              · right
                cases tr with
                | none => simp at hb
                | some r =>
                  simp only [Bool.and_eq_true, decide_eq_true_eq] at hb
                  exact ⟨r, rfl, hb.1, hb.2⟩
            · intro ⟨_, bl, be, hbl', hbe', hor⟩
              rw [hB] at hbl'; rw [hA] at hbe'
              have ebl : bl = maxQ y ys := isMaxOf_unique hbl' hbl
              have ebe : be = maxQ x pre := isMaxOf_unique hbe' hbe
              subst ebl; subst ebe
              simp only [Bool.or_eq_true]
              rcases hor with h | h | h
              · exfalso; grind
              · left
                obtain ⟨a', ha', hlt⟩ := h
                subst ha'; simpa using hlt
              · right
                obtain ⟨r, hr, hz, hlt⟩ := h
                subst hr
                simp only [Bool.and_eq_true, decide_eq_true_eq]
                exact ⟨hz, hlt⟩

/-- in particular `no_change` never raises on finite scores (also when the earlier best is 0) -/
theorem noChange_never_raises (flv : Flavour) (qs : List Rat) (n : Nat) (hn : 1 ≤ n) (ta tr : Option Rat) :
    ∃ b, noChange flv (qs.map F.fin) { n := some n, tolAbs := ta.map F.fin, tolRel := tr.map F.fin } = .ok b :=
  let ⟨b, h, _⟩ := noChange_spec flv qs n hn ta tr
  ⟨b, h⟩

/-- the pinned-commit form raised `ZeroDivisionError` for Python floats on a zero baseline … -/
theorem noChangeLegacy_zero_baseline_witness :
    noChangeLegacy .py ([0, 0, 0, 1].map F.fin) { n := some 3, tolAbs := none, tolRel := some (.fin 5) } = .error .zeroDivision := by
  decide +kernel

/-- … where the current form answers "no stop" (numpy floats always did, via inf) -/
theorem noChange_zero_baseline :
    noChange .py ([0, 0, 0, 1].map F.fin) { n := some 3, tolAbs := none, tolRel := some (.fin 5) } = .ok false ∧
    noChange .np ([0, 0, 0, 1].map F.fin) { n := some 3, tolAbs := none, tolRel := some (.fin 5) } = .ok false := by
  decide +kernel

variable {σ : Type}

/-- `early_stopping` is the only criterion set -/
def OnlyEarly (c : Call) (es : Early) : Prop := c.early = some es ∧ c.maxTime = none ∧ c.maxScore = none

theorem checkStop_onlyEarly {c : Call} {d : DState σ} {cs : CState} {es : Early}
    (h : cs.stop.early = some es ∧ cs.stop.maxTime = none ∧ cs.stop.maxScore = none) :
    checkStop c d cs = noChange c.flv d.scoreL es := by
  obtain ⟨h1, h2, h3⟩ := h
  unfold checkStop stopCheck
  simp [h1, h2, h3, scoreExceeded, timeExceeded]

/-- C13, the stop step: the search runs on while `no_change` is false on the scores so far and stops at the first
    step where it is true (the list handed to `no_change` is the optimizer's whole `score_l`, i.e. it also holds
    the scores of earlier `search()` calls on the same object - `[]` for a fresh optimizer). -/
theorem earlyStop_step {b : Backend σ} {sp : Space} {obj : Obj} {c : Call} {d d' : DState σ} {r : CallResult} {es : Early}
    (h : searchCall b sp obj c d = .ok (d', r)) (hc : OnlyEarly c es) (hn : 0 < c.nIter) :
    ∃ new, d'.scoreL = d.scoreL ++ new ∧ new.length = r.steps ∧ 0 < r.steps ∧ r.steps ≤ c.nIter ∧
      (∀ j, 0 < j → j < r.steps → noChange c.flv (d.scoreL ++ new.take j) es = .ok false) ∧
      (r.steps < c.nIter → noChange c.flv d'.scoreL es = .ok true) := by
  obtain ⟨cs, d1, cs1, tr, S⟩ := searchCall_shape h hn
  obtain ⟨_, _, _, hmt, hms, hes, _⟩ := initSearch_ok S.init
  obtain ⟨he, ht, hm⟩ := hc
  have hstop : cs.stop.early = some es ∧ cs.stop.maxTime = none ∧ cs.stop.maxScore = none := by
    rw [hms, hmt, hes]; exact ⟨he, ht, hm⟩
  have T := S.traj
  have hfin := finishSearch_ok S.fin
  have hscoreL : d'.scoreL = d.scoreL ++ tr.map StepRec.score := by rw [hfin.2.2.1, T.scoreL]
  have hlen : tr.length = r.steps := by have := T.len; omega
  refine ⟨tr.map StepRec.score, hscoreL, by simp [hlen], T.pos, S.le, ?_, ?_⟩
  · intro j hj hjl
    obtain ⟨dj, csj, Tj, hchk⟩ := S.prefixes j hj hjl
    have hstopj : csj.stop.early = some es ∧ csj.stop.maxTime = none ∧ csj.stop.maxScore = none := by
      rw [Tj.stop]; exact hstop
    rw [checkStop_onlyEarly hstopj, Tj.scoreL] at hchk
    rw [← List.map_take]; exact hchk
  · intro hlt
    have hchk := S.fired hlt
    have hstop1 : cs1.stop.early = some es ∧ cs1.stop.maxTime = none ∧ cs1.stop.maxScore = none := by
      rw [T.stop]; exact hstop
    rw [checkStop_onlyEarly hstop1, T.scoreL] at hchk
    rw [hscoreL]; exact hchk

/-- … and for finite scores "`no_change` is true" is the documented rule (`noChange_spec`): a fresh optimizer with
    finite scores `qs` stops after the first `k` with `Spec (qs.take k)`, never earlier, never later -/
theorem earlyStop_rule {b : Backend σ} {sp : Space} {obj : Obj} {c : Call} {d d' : DState σ} {r : CallResult}
    {n : Nat} {ta tr : Option Rat} {qs : List Rat}
    (h : searchCall b sp obj c d = .ok (d', r))
    (hc : OnlyEarly c { n := some n, tolAbs := ta.map F.fin, tolRel := tr.map F.fin }) (hn : 0 < c.nIter) (hn1 : 1 ≤ n)
    (hfresh : d.scoreL = []) (hqs : d'.scoreL = qs.map F.fin) :
    qs.length = r.steps ∧
    (∀ j, 0 < j → j < r.steps → ¬ Spec (qs.take j) n ta tr) ∧
    (r.steps < c.nIter → Spec qs n ta tr) := by
  obtain ⟨new, hnew, hlen, _, _, hpre, hfire⟩ := earlyStop_step h hc hn
  rw [hfresh, List.nil_append] at hnew
  have hnq : new = qs.map F.fin := by rw [← hnew, hqs]
  refine ⟨by rw [← hlen, hnq]; simp, ?_, ?_⟩
  · intro j hj hjl hspec
    have := hpre j hj hjl
    rw [hfresh, List.nil_append, hnq, ← List.map_take] at this
    obtain ⟨bb, hb, hiff⟩ := noChange_spec c.flv (qs.take j) n hn1 ta tr
    rw [this] at hb
    simp only [Except.ok.injEq] at hb
    have := hiff.mpr hspec
    rw [← hb] at this
    exact absurd this (by simp)
  · intro hlt
    have := hfire hlt
    rw [hqs] at this
    obtain ⟨bb, hb, hiff⟩ := noChange_spec c.flv qs n hn1 ta tr
    rw [this] at hb
    simp only [Except.ok.injEq] at hb
    exact hiff.mp hb.symm

/-- non-vacuity: the rule fires and does not fire on concrete lists -/
example : Spec [1, 2, 3, 3, 3] 2 none none := by
  refine ⟨by decide, 3, 3, ⟨by decide, by decide⟩, ⟨by decide, by decide⟩, Or.inl (by decide)⟩

end GFO.C13
