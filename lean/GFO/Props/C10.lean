/-
  C10 — warm-start points are always evaluated during initialisation.

  The chain, each link a theorem:
    (a) `warm_in_init_list`: a warm-start dictionary (ANY key order - it is read by name, fix e0720d0) whose position is
        feasible is a member of `init_positions_l` (model: GFO.Model.Init.setPos), whatever grid/vertices/random counts;
    (b) `init_list_evaluated`: a freshly constructed optimizer whose `init_pos` hands out a list `L` of `n_inits` positions
        evaluates, in a call with `n_iter ≥ n_inits`, exactly `L` in its first `n_inits` steps - through the REAL driver
        model (`searchCall`), for any `iterate`/`evaluate` whatsoever;
    (c) `deal_order`: `split` deals `L` round-robin so that trial `t` of a population (member `t % pop`, its `t / pop`-th
        position) is `L[t]`: populations evaluate the same list in the same order, and no member is asked for more than it
        was dealt;
    (d) C05.best_is_first_max gives `best_score ≥ objective(w)` for every evaluated `w`.
-/
import GFO.Props.C02
import GFO.Proofs.Run
namespace GFO.C10
open GFO
variable {σ : Type}

theorem mem_of_mapM_ok {α β : Type} (f : α → Except Err β) (l : List α) (r : List β) (h : l.mapM f = .ok r)
    (a : α) (ha : a ∈ l) (b : β) (hb : f a = .ok b) : b ∈ r := by
  induction l generalizing r with
  | nil => simp at ha
  | cons x xs ih =>
    simp only [List.mapM_cons, bind, Except.bind, pure, Except.pure] at h
    cases hx : f x with
    | error e => simp [hx] at h
    | ok y =>
      simp only [hx] at h
      cases hxs : List.mapM f xs with
      | error e => simp [hxs] at h
      | ok ys =>
        simp only [hxs, Except.ok.injEq] at h
        subst h
        rcases List.mem_cons.mp ha with e | e
        · subst e; rw [hx] at hb; cases hb; simp
        · simp [ih ys hxs e]

/-- (a) every feasible warm-start point is in the list of initial positions -/
theorem warm_in_init_list (feas : Pos → Bool) (sp : Space) (c : InitCfg) (pPerDim fuel : Nat) (d d' : Draws) (ps : List Pos)
    (h : setPos feas sp c pPerDim fuel d = .ok (ps, d'))
    (ws : List Para) (hws : c.warm = some ws) (w : Para) (hw : w ∈ ws) (k : Pos) (hk : warmPos sp w = .ok k) (hf : feas k = true) :
    k ∈ ps := by
  unfold setPos at h
  cases hl : setPosParts feas sp c pPerDim fuel d with
  | error e => simp [hl] at h
  | ok x =>
    obtain ⟨l, d1⟩ := x
    simp only [hl] at h
    cases hr : initRandom feas fuel (c.nInits - l.length) d1 with
    | error e => simp [hr] at h
    | ok y =>
      obtain ⟨rest, d2⟩ := y
      simp only [hr, Except.ok.injEq, Prod.mk.injEq] at h
      obtain ⟨hps, _⟩ := h
      subst hps
      apply List.mem_append_left
      -- unfold the parts: the warm-start part is the last one
      unfold setPosParts at hl
      cases ha : partRandom feas fuel c.random d with
      | error e => rw [ha] at hl; simp at hl
      | ok xa =>
        obtain ⟨a, da⟩ := xa
        rw [ha] at hl
        simp only at hl
        cases hv : partVertices feas c.vertices da with
        | error e => rw [hv] at hl; simp at hl
        | ok xv =>
          obtain ⟨v, dv⟩ := xv
          rw [hv] at hl
          simp only at hl
          cases hwm : partWarm feas sp c.warm with
          | error e => rw [hwm] at hl; simp at hl
          | ok wl =>
            rw [hwm] at hl
            simp only [Except.ok.injEq, Prod.mk.injEq] at hl
            obtain ⟨hl', _⟩ := hl
            subst hl'
            apply List.mem_append_right
            rw [hws] at hwm
            simp only [partWarm, initWarm] at hwm
            cases hm : ws.mapM (warmPos sp) with
            | error e => rw [hm] at hwm; simp at hwm
            | ok allp =>
              rw [hm] at hwm
              simp only [Except.ok.injEq] at hwm
              subst hwm
              apply List.mem_filter.mpr
              refine ⟨?_, hf⟩
              exact mem_of_mapM_ok _ ws allp hm w hw k hk

/-- `CoreOptimizer.init_pos` over a list `L`: returns `L[nth_init]` and advances `nth_init`; `evaluate_init` leaves it alone -/
structure ListInit (b : Backend σ) (L : List Pos) (nth : σ → Nat) : Prop where
  initPos : ∀ s p s', b.initPos s = .ok (p, s') → L[nth s]? = some p ∧ nth s' = nth s + 1
  evalInit : ∀ s x s', b.evalInit s x = .ok s' → nth s' = nth s

/-- (b) a fresh optimizer evaluates its list of initial positions, in order, in the first `n_inits` steps -/
theorem init_list_evaluated {b : Backend σ} {sp : Space} {obj : Obj} {c : Call} {d d' : DState σ} {r : CallResult}
    {L : List Pos} {nth : σ → Nat} (hb : ListInit b L nth)
    (h : searchCall b sp obj c d = .ok (d', r)) (hn : 0 < c.nIter)
    (hfresh : d.posL = [] ∧ d.nInitTotal = 0 ∧ nth d.bst = 0) (hL : L.length = d.nInits) :
    d'.posL.take (min r.steps L.length) = L.take (min r.steps L.length) := by
  let n := min L.length c.nIter
  let P : Nat → DState σ → CState → Prop := fun i dd cs =>
    cs.nInitsNorm = n ∧ dd.posL.length = i ∧ dd.posL.take (min i L.length) = L.take (min i L.length) ∧ (i ≤ n → nth dd.bst = i)
  have hstep : ∀ i (dd d1 : DState σ) (cs cs1 : CState) p v e, P i dd cs → i < c.nIter → StepFacts sp obj c i dd d1 cs cs1 p v e →
      BStep b (i < cs.nInitsNorm) dd.bst d1.bst p e.res.score → P (i + 1) d1 cs1 := by
    intro i dd d1 cs cs1 p v e ⟨hnorm, hlen, htake, hnth⟩ hiter f hbs
    refine ⟨by rw [f.nInitsNorm]; exact hnorm, by rw [f.posL]; simp [hlen], ?_, ?_⟩
    · rw [f.posL]
      rcases hbs with ⟨hlt, s1, hi, he⟩ | ⟨hge, _⟩
      · -- initialisation step: the emitted position is L[i]
        rw [hnorm] at hlt
        have hiL : i < L.length := by simp only [n] at hlt; omega
        have hnthi := hnth (by omega)
        obtain ⟨hget, _⟩ := hb.initPos _ _ _ hi
        rw [hnthi] at hget
        have e1 : min (i + 1) L.length = i + 1 := by omega
        have e0 : min i L.length = i := by omega
        rw [e1]
        rw [e0] at htake
        have hposi : dd.posL = L.take i := by
          have := List.take_of_length_le (Nat.le_of_eq hlen) (l := dd.posL)
          rw [← this]; exact htake
        have hLi : L.take (i + 1) = L.take i ++ [p] := by
          rw [List.take_succ, hget]; simp
        rw [hposi, hLi]
        apply List.take_of_length_le
        simp [List.length_take]; omega
      · -- iteration step i ≥ min |L| n_iter and i < n_iter, hence i ≥ |L|: the prefix of length |L| is untouched
        rw [hnorm] at hge
        have hiL : L.length ≤ i := by simp only [n] at hge; omega
        have e1 : min (i + 1) L.length = L.length := by omega
        have e0 : min i L.length = L.length := by omega
        rw [e1]; rw [e0] at htake
        rw [List.take_append_of_le_length (by omega)]
        exact htake
    · intro hle
      rcases hbs with ⟨hlt, s1, hi, he⟩ | ⟨hge, _⟩
      · obtain ⟨_, hn1⟩ := hb.initPos _ _ _ hi
        have := hb.evalInit _ _ _ he
        rw [this, hn1, hnth (by omega)]
      · rw [hnorm] at hge; omega
  have hstart : ∀ cs, initSearch sp c d = .ok cs → P 0 d cs := by
    intro cs hcs
    obtain ⟨_, _, hnorm, _⟩ := initSearch_ok hcs
    refine ⟨by rw [hnorm, hfresh.2.1, ← hL]; simp only [n]; omega, by rw [hfresh.1]; rfl, by simp, fun _ => hfresh.2.2⟩
  obtain ⟨cs, d1, cs1, _, hfin, hP⟩ := searchCall_inv_idx P hstep h hn hstart
  have hf := finishSearch_ok hfin
  rw [hf.2.1]
  exact hP.2.2.1

/-! ### (c) dealing the initial positions to a population -/

theorem filterMap_prefix {α : Type} (f : Nat → Option α) (m n : Nat) (hmn : m ≤ n)
    (hsome : ∀ j, j < m → (f j).isSome = true) (hnone : ∀ j, m ≤ j → f j = none) :
    (List.range n).filterMap f = (List.range m).filterMap f := by
  induction n with
  | zero => have : m = 0 := by omega
            subst this; rfl
  | succ n ih =>
    by_cases h : m = n + 1
    · subst h; rfl
    · rw [List.range_succ, List.filterMap_append, ih (by omega)]
      simp [hnone n (by omega)]

theorem filterMap_range_get {α : Type} (f : Nat → Option α) (m : Nat) (hsome : ∀ j, j < m → (f j).isSome = true) (j : Nat) (hj : j < m) :
    ((List.range m).filterMap f)[j]? = f j := by
  induction m generalizing j with
  | zero => omega
  | succ m ih =>
    rw [List.range_succ, List.filterMap_append]
    have hlen : ((List.range m).filterMap f).length = m := by
      clear ih hj
      induction m with
      | zero => rfl
      | succ k ihk =>
        rw [List.range_succ, List.filterMap_append, List.length_append, ihk (fun j hj => hsome j (by omega))]
        obtain ⟨x, hx⟩ := Option.isSome_iff_exists.mp (hsome k (by omega))
        simp [hx]
    by_cases hjm : j < m
    · rw [List.getElem?_append_left (by omega)]
      exact ih (fun j hj => hsome j (by omega)) j hjm
    · have : j = m := by omega
      subst this
      rw [List.getElem?_append_right (by omega), hlen]
      obtain ⟨x, hx⟩ := Option.isSome_iff_exists.mp (hsome j (by omega))
      simp [hx]

/-- (c) `split` deals round-robin: the `t`-th initial position is member `t % pop`'s `t / pop`-th position -/
theorem deal_order {α : Type} (L : List α) (pop : Nat) (hpop : 0 < pop) (t : Nat) (ht : t < L.length) :
    ((splitDeal L pop)[t % pop]?).bind (fun m => m[t / pop]?) = L[t]? := by
  unfold splitDeal
  simp only
  have hmod : t % pop < pop := Nat.mod_lt _ hpop
  rw [List.getElem?_map, List.getElem?_range hmod]
  simp only [Option.map_some, Option.bind_some]
  -- the member's list: j ↦ L[t % pop + j * pop]?, a prefix of somes followed by nones
  let f : Nat → Option α := fun j => L[t % pop + j * pop]?
  let divInt := (L.length + pop - 1) / pop
  -- number of valid j
  let m := (L.length - t % pop + pop - 1) / pop
  have hm_some : ∀ j, j < m → (f j).isSome = true := by
    intro j hj
    simp only [f]
    rw [List.getElem?_eq_getElem]
    · rfl
    · simp only [m] at hj
      have : j * pop < L.length - t % pop + pop - 1 - (pop - 1) + (pop - 1) - (pop - 1) + 1 ∨ True := Or.inr trivial
      have h1 : (j + 1) * pop ≤ L.length - t % pop + pop - 1 := by
        have := Nat.div_mul_le_self (L.length - t % pop + pop - 1) pop
        calc (j + 1) * pop ≤ ((L.length - t % pop + pop - 1) / pop) * pop := Nat.mul_le_mul_right _ hj
          _ ≤ _ := this
      have hlt : t % pop < L.length := by
        have := Nat.mod_le t pop; omega
      have : (j + 1) * pop = j * pop + pop := by rw [Nat.add_mul]; simp
      omega
  have hm_none : ∀ j, m ≤ j → f j = none := by
    intro j hj
    simp only [f]
    rw [List.getElem?_eq_none]
    simp only [m] at hj
    have h1 : L.length - t % pop + pop - 1 < (j + 1) * pop := by
      have := Nat.lt_mul_div_succ (L.length - t % pop + pop - 1) hpop
      calc L.length - t % pop + pop - 1 < pop * ((L.length - t % pop + pop - 1) / pop + 1) := this
        _ ≤ pop * (j + 1) := Nat.mul_le_mul_left _ (by omega)
        _ = (j + 1) * pop := Nat.mul_comm _ _
    have : (j + 1) * pop = j * pop + pop := by rw [Nat.add_mul]; simp
    omega
  have hm_le : m ≤ divInt := by
    simp only [m, divInt]
    apply Nat.div_le_div_right
    omega
  have hjt : t / pop < m := by
    apply Classical.byContradiction
    intro hc
    have := hm_none (t / pop) (by omega)
    simp only [f] at this
    have e : t % pop + t / pop * pop = t := by rw [Nat.mul_comm]; exact Nat.mod_add_div t pop
    rw [e] at this
    rw [List.getElem?_eq_getElem ht] at this
    cases this
  show ((List.range divInt).filterMap f)[t / pop]? = L[t]?
  rw [filterMap_prefix f m divInt hm_le hm_some hm_none, filterMap_range_get f m hm_some (t / pop) hjt]
  simp only [f]
  have e : t % pop + t / pop * pop = t := by rw [Nat.mul_comm]; exact Nat.mod_add_div t pop
  rw [e]

end GFO.C10
