/-
  C05 — best_score / best_para are the true best of the evaluated rows.

  Model: `PBar` (both progress-bar classes), `finishSearch`. For every backend, objective and space:
  after a call `best_score` is the maximum of the call's non-nan scores and `best_para` decodes the position of the
  FIRST step attaining it (also when that maximum is -inf: fix 733723c); nan is never the best and `best_para` is None
  only when every score of the call was nan; the result does not depend on the verbosity.
-/
import GFO.Proofs.Verbosity
namespace GFO.C05
open GFO
variable {σ : Type}

/-- the (position, score) pairs of the steps this call performed, in order -/
def callSteps (d d' : DState σ) : List (Pos × F) := (d'.posL.drop d.posL.length).zip (d'.scoreL.drop d.scoreL.length)

/-- C05 main statement -/
theorem best_is_first_max {b : Backend σ} {sp : Space} {obj : Obj} {c : Call} {d d' : DState σ} {r : CallResult}
    (h : searchCall b sp obj c d = .ok (d', r)) (hn : 0 < c.nIter) (hlen : d.posL.length = d.scoreL.length) :
    -- nan is never reported
    r.bestScore.isNan = false ∧
    -- it dominates every non-nan score of the call
    (∀ ps ∈ callSteps d d', ps.2.isNan = false → F.le ps.2 r.bestScore = true) ∧
    -- it is attained, and best_pos is the position of the first step attaining it ...
    ((r.bestScore = .ninf ∧ r.bestPos = none ∧ ∀ ps ∈ callSteps d d', ps.2.isNan = true) ∨
     (∃ l1 t l2, callSteps d d' = l1 ++ t :: l2 ∧ r.bestScore = t.2 ∧ r.bestPos = some t.1 ∧
        ∀ u ∈ l1, F.lt u.2 t.2 = true ∨ u.2.isNan = true)) := by
  obtain ⟨cs, d1, cs1, tr, S⟩ := searchCall_shape h hn
  obtain ⟨_, _, _, _, _, _, _, hpb, _⟩ := initSearch_ok S.init
  have T := S.traj
  have hfin := finishSearch_ok S.fin
  have hpos : d'.posL = d.posL ++ tr.map StepRec.pos := by rw [hfin.2.1, T.posL]
  have hsc : d'.scoreL = d.scoreL ++ tr.map StepRec.score := by rw [hfin.2.2.1, T.scoreL]
  have hsteps : callSteps d d' = tr.map (fun t => (t.pos, t.score)) := by
    simp only [callSteps, hpos, hsc, List.drop_left]
    rw [List.zip_map']
  have hbest : (r.bestScore, r.bestPos) = bestOf (F.ninf, none) tr := by
    rw [hfin.2.2.2.2.2.2.2.2.2.2.2.2.2.1, hfin.2.2.2.2.2.2.2.2.2.2.2.2.2.2.1, T.pbar, pbarFold_best, hpb]
  have hbs : r.bestScore = (bestOf (F.ninf, none) tr).1 := congrArg Prod.fst hbest
  have hbp : r.bestPos = (bestOf (F.ninf, none) tr).2 := congrArg Prod.snd hbest
  refine ⟨by rw [hbs]; exact bestOf_notNan _ _ rfl, ?_, ?_⟩
  · intro ps hps hnn
    rw [hsteps] at hps
    obtain ⟨t, ht, hts⟩ := List.mem_map.mp hps
    subst hts
    rw [hbs]; exact bestOf_ge_mem _ _ rfl t ht hnn
  · rcases bestOf_first (F.ninf, none) rfl tr with hsame | ⟨l1, t, l2, hl, hb, _, hall⟩
    · left
      refine ⟨by rw [hbs, hsame], by rw [hbp, hsame], ?_⟩
      intro ps hps
      rw [hsteps] at hps
      obtain ⟨t, ht, hts⟩ := List.mem_map.mp hps
      subst hts
      exact bestOf_initial_iff_all_nan tr hsame t ht
    · right
      refine ⟨l1.map (fun t => (t.pos, t.score)), (t.pos, t.score), l2.map (fun t => (t.pos, t.score)), ?_, ?_, ?_, ?_⟩
      · rw [hsteps, hl]; simp
      · rw [hbs, hb]
      · rw [hbp, hb]
      · intro u hu
        obtain ⟨w, hw, hwu⟩ := List.mem_map.mp hu
        subst hwu
        exact hall w hw

/-- `best_value` / `best_para` are the decoding of `best_pos` -/
theorem best_para_decodes {b : Backend σ} {sp : Space} {obj : Obj} {c : Call} {d d' : DState σ} {r : CallResult}
    (h : searchCall b sp obj c d = .ok (d', r)) :
    (r.bestPos = none → r.bestValue = none ∧ r.bestPara = none) ∧
    (∀ p, r.bestPos = some p → ∃ v, position2value sp.dims p = .ok v ∧ r.bestValue = some v ∧
      r.bestPara = some (value2para sp.names v)) := by
  obtain ⟨cs, d1, cs1, steps, _, _, hfin⟩ := searchCall_parts h
  unfold finishSearch at hfin
  simp only [bind, Except.bind, pure, Except.pure] at hfin
  cases hp : cs1.pbar.posBest with
  | none =>
    simp only [hp, Except.ok.injEq, Prod.mk.injEq] at hfin
    obtain ⟨_, hr⟩ := hfin
    subst hr
    exact ⟨fun _ => ⟨rfl, rfl⟩, fun p hpp => by simp at hpp⟩
  | some p =>
    simp only [hp] at hfin
    cases hv : position2value sp.dims p with
    | error e => simp [hv] at hfin
    | ok v =>
      simp only [hv, Except.ok.injEq, Prod.mk.injEq] at hfin
      obtain ⟨_, hr⟩ := hfin
      subst hr
      refine ⟨fun hn => by simp at hn, ?_⟩
      intro q hq
      simp only [Option.some.injEq] at hq
      subst hq
      exact ⟨v, hv, rfl, rfl⟩

/-- the result is the same with and without the progress bar (ProgressBarLVL1 vs ProgressBarLVL0) -/
theorem verbosity_irrelevant (b : Backend σ) (sp : Space) (obj : Obj) (c : Call) (d : DState σ) (l1 l2 : Bool) :
    (searchCall b sp obj { c with lvl1 := l1 } d).map (fun x => (x.1.rows, x.1.posL, x.1.scoreL, x.2.core)) =
    (searchCall b sp obj { c with lvl1 := l2 } d).map (fun x => (x.1.rows, x.1.posL, x.1.scoreL, x.2.core)) := by
  have q1 := searchCall_quiet b sp obj { c with lvl1 := l1 } d
  have q2 := searchCall_quiet b sp obj { c with lvl1 := l2 } d
  have e : quiet { c with lvl1 := l1 } = quiet { c with lvl1 := l2 } := rfl
  rw [e] at q1
  rw [q2] at q1
  cases h1 : searchCall b sp obj { c with lvl1 := l1 } d with
  | error e1 =>
    cases h2 : searchCall b sp obj { c with lvl1 := l2 } d with
    | error e2 => simp [h1, h2] at q1; simp [Except.map, q1]
    | ok x2 => simp [h1, h2] at q1
  | ok x1 =>
    cases h2 : searchCall b sp obj { c with lvl1 := l2 } d with
    | error e2 => simp [h1, h2] at q1
    | ok x2 =>
      simp only [h1, h2, Except.ok.injEq, Prod.mk.injEq] at q1
      simp only [Except.map, Except.ok.injEq, Prod.mk.injEq]
      obtain ⟨hd, hr⟩ := q1
      rw [hd]
      refine ⟨rfl, rfl, rfl, ?_⟩
      simp only [CallResult.core] at hr ⊢
      exact hr.symm

/-- the pinned-commit form (strict `>` only) left `best_para = None` for an all `-inf` call; the current one reports
    the first such row -/
theorem allNegInf_witness :
    (({} : PBar).new2bestLegacy .ninf [3]).posBest = none ∧ (({} : PBar).new2best .ninf [3]).posBest = some [3] ∧
    (({} : PBar).new2best .nan [3]).posBest = none := by decide +kernel

end GFO.C05
