/-
  C16 — grid search enumerates the whole space without repetition.

  Model: GFO.Model.Grid (`grid/diagonal_grid_search.py` after fix b6579da, `grid/orthogonal_grid_search.py`), no
  constraints. For EVERY tuple of dimension sizes (all ≥ 1), every step_size `s` dividing |S| and every direction
  (the diagonal one with any stride `d` coprime to |S|, which `get_direction` delivers): the first |S| iteration
  steps visit positions of the box that are pairwise distinct - hence every point of the space exactly once.
  The pinned-commit pass test gets its witness (`diag_legacy_duplicate_witness`).
-/
import GFO.Proofs.Grid
import Mathlib.Data.List.Nodup
namespace GFO.C16
open GFO

/-- diagonal direction: the first |S| positions are in the box and pairwise distinct -/
theorem diag_covers (dims : List Nat) (hpos : ∀ n ∈ dims, 0 < n) (s M d : Nat) (hs : 0 < s) (hS : prodN dims = s * M)
    (hc : Nat.Coprime d (prodN dims)) :
    (∀ t, t < prodN dims → inBoxN dims (diagPos dims s d t) = true) ∧
    (∀ t t', t < prodN dims → t' < prodN dims → diagPos dims s d t = diagPos dims s d t' → t = t') := by
  have hSpos : 0 < prodN dims := prodN_pos dims hpos
  have hM : 0 < M := by
    rcases Nat.eq_zero_or_pos M with h0 | h0
    · subst h0; simp at hS; omega
    · exact h0
  constructor
  · intro t ht
    unfold diagPos
    apply decodeDiag_inBox dims hpos
    rw [hS]; exact diagPtr_lt s M d hs hM t (by rw [← hS]; exact ht)
  · intro t t' ht ht' h
    unfold diagPos at h
    have h1 : diagPtr (prodN dims) s d t < prodN dims := by
      rw [hS]; exact diagPtr_lt s M d hs hM t (by rw [← hS]; exact ht)
    have h2 : diagPtr (prodN dims) s d t' < prodN dims := by
      rw [hS]; exact diagPtr_lt s M d hs hM t' (by rw [← hS]; exact ht')
    have := decodeDiag_inj dims hpos _ _ h1 h2 h
    rw [hS] at this hc ht ht'
    exact diagPtr_inj s M d hs hM hc t t' ht ht' this

/-- orthogonal direction: the first |S| positions are in the box and pairwise distinct -/
theorem orth_covers (dims : List Nat) (hpos : ∀ n ∈ dims, 0 < n) (s M : Nat) (hs : 0 < s) (hS : prodN dims = s * M) :
    (∀ t, inBoxN dims (orthPos dims s t) = true) ∧
    (∀ t t', t < prodN dims → t' < prodN dims → orthPos dims s t = orthPos dims s t' → t = t') := by
  have hSpos : 0 < prodN dims := prodN_pos dims hpos
  constructor
  · intro t; exact decodeOrth_inBox dims hpos _
  · intro t t' ht ht' h
    unfold orthPos at h
    rw [← decodeOrth_mod dims hpos (orthRaw (prodN dims) s t), ← decodeOrth_mod dims hpos (orthRaw (prodN dims) s t')] at h
    have := decodeOrth_inj dims hpos _ _ (Nat.mod_lt _ hSpos) (Nat.mod_lt _ hSpos) h
    rw [hS] at this ht ht'
    exact orthRaw_inj s M hs t t' ht ht' this

/-- the stride `get_direction` returns is ≥ 1 and coprime to |S| (so `diag_covers` applies), for any start value ≥ 1 -/
theorem direction_is_generator (S start : Nat) (hS : 0 < S) (h1 : 1 ≤ start) :
    1 ≤ getDirection S start ∧ Nat.Coprime (getDirection S start) S :=
  let ⟨a, _, c⟩ := getDirection_spec S hS start h1
  ⟨a, c⟩

/-- |S| pairwise distinct positions of a box with |S| points: every point is visited (counting form of "exactly once") -/
theorem positions_nodup (f : Nat → List Nat) (S : Nat) (hinj : ∀ t t', t < S → t' < S → f t = f t' → t = t') :
    ((List.range S).map f).Nodup := by
  apply List.Nodup.map_on _ List.nodup_range
  intro a ha b hb hab
  exact hinj a b (List.mem_range.mp ha) (List.mem_range.mp hb) hab

/-- the pass test of the pinned commit revisited pointer 1 at step |S| - 1 of the first pass on a 3x3 space -/
theorem diag_legacy_duplicate_witness :
    diagPtrLegacy 9 1 2 8 = 1 ∧ diagPtrLegacy 9 1 2 5 = 1 ∧ diagPtr 9 1 2 8 = 7 ∧
    ((List.range 9).map (diagPos [3, 3] 1 2)).Nodup := by decide +kernel

example : Nat.Coprime 2 (prodN [3, 3]) ∧ prodN [3, 3] = 1 * 9 := by decide

end GFO.C16
