/-
  Whole-run theorems for the complete models of the evolutionary population optimizers (GFO.Model.Evolution):
  `EvolutionStrategyOptimizer`, `DifferentialEvolutionOptimizer`, `GeneticAlgorithmOptimizer` meet the population contract
  `PopOK` of GFO.Props.PopRuns, hence (C01 + C02) every position a call evaluates is a feasible position of the space and
  (C19) every individual's tracked pairs are pairs the optimizer really evaluated - for every population, configuration,
  objective, call, prior state and tape.
-/
import GFO.Model.Evolution
import GFO.Props.PopRuns
import GFO.Props.C08
namespace GFO.EvoRuns
open GFO GFO.C01 GFO.C19 GFO.LocalRuns GFO.PopRuns

/-! ### the small tape readers -/

theorem popSorted_spec {s : PopSt} {tape rest : Tape} {perm : List Nat} (h : popSorted s tape = .ok (perm, rest)) :
    tape = Draw.sorted perm :: rest := by
  unfold popSorted at h
  split at h
  · split at h
    · simp only [Except.ok.injEq, Prod.mk.injEq] at h; obtain ⟨rfl, rfl⟩ := h; rfl
    · simp at h
  · simp at h
  · simp at h

theorem takeInt_spec {tape rest : Tape} {k : Nat} (h : takeInt tape = .ok (k, rest)) : tape = Draw.int k :: rest := by
  unfold takeInt at h
  split at h
  · simp only [Except.ok.injEq, Prod.mk.injEq] at h; obtain ⟨rfl, rfl⟩ := h; rfl
  · simp at h
  · simp at h

theorem takeNpUnif_spec {tape rest : Tape} {x : Rat} (h : takeNpUnif tape = .ok (x, rest)) : tape = Draw.npunif x :: rest := by
  unfold takeNpUnif at h
  split at h
  · simp only [Except.ok.injEq, Prod.mk.injEq] at h; obtain ⟨rfl, rfl⟩ := h; rfl
  · simp at h
  · simp at h

theorem takeRand01_spec {tape rest : Tape} {x : Rat} (h : takeRand01 tape = .ok (x, rest)) : tape = Draw.unif x :: rest := by
  unfold takeRand01 at h
  split at h
  · simp only [Except.ok.injEq, Prod.mk.injEq] at h; obtain ⟨rfl, rfl⟩ := h; rfl
  · simp at h
  · simp at h

theorem takeChoice_spec {n : Nat} {tape rest : Tape} {c : List Nat} (h : takeChoice n tape = .ok (c, rest)) :
    tape = Draw.choice c :: rest ∧ c.length = n := by
  unfold takeChoice at h
  split at h
  · split at h
    · rename_i hl
      simp only [Except.ok.injEq, Prod.mk.injEq] at h; obtain ⟨rfl, rfl⟩ := h; exact ⟨rfl, hl⟩
    · simp at h
  · simp at h
  · simp at h

/-! ### positions: pointwise view of `inBox`, recombination stays in the box -/

theorem inBox_length : ∀ (sizes : List Nat) (p : Pos), inBox sizes p = true → p.length = sizes.length
  | [], [], _ => rfl
  | [], _ :: _, h => by simp [inBox] at h
  | _ :: _, [], h => by simp [inBox] at h
  | n :: ns, x :: xs, h => by
    simp only [inBox, Bool.and_eq_true] at h
    simp [inBox_length ns xs h.2]

theorem inBox_get : ∀ (sizes : List Nat) (p : Pos), inBox sizes p = true → ∀ (k : Nat) (x : Int), p[k]? = some x → ∃ n, sizes[k]? = some n ∧ 0 ≤ x ∧ x < (n : Int)
  | [], [], _, k, x, hk => by simp at hk
  | [], _ :: _, h, _, _, _ => by simp [inBox] at h
  | _ :: _, [], h, _, _, _ => by simp [inBox] at h
  | n :: ns, y :: ys, h, k, x, hk => by
    simp only [inBox, Bool.and_eq_true, decide_eq_true_eq] at h
    cases k with
    | zero => simp only [List.getElem?_cons_zero, Option.some.injEq] at hk; subst hk; exact ⟨n, by simp, h.1.1, h.1.2⟩
    | succ k' =>
      simp only [List.getElem?_cons_succ] at hk
      obtain ⟨n', a, b, c⟩ := inBox_get ns ys h.2 k' x hk
      exact ⟨n', by simpa using a, b, c⟩

theorem inBox_of_get : ∀ (sizes : List Nat) (p : Pos), p.length = sizes.length →
    (∀ (k : Nat) (x : Int), p[k]? = some x → ∃ n, sizes[k]? = some n ∧ 0 ≤ x ∧ x < (n : Int)) → inBox sizes p = true
  | [], [], _, _ => rfl
  | [], _ :: _, h, _ => by simp at h
  | _ :: _, [], h, _ => by simp at h
  | n :: ns, y :: ys, hl, hg => by
    simp only [inBox, Bool.and_eq_true, decide_eq_true_eq]
    obtain ⟨n0, a, b, c⟩ := hg 0 y (by simp)
    simp only [List.getElem?_cons_zero, Option.some.injEq] at a
    subst a
    refine ⟨⟨b, c⟩, inBox_of_get ns ys (by simpa using hl) ?_⟩
    intro k x hk
    obtain ⟨n', a', b', c'⟩ := hg (k + 1) x (by simpa using hk)
    exact ⟨n', by simpa using a', b', c'⟩

theorem mapM_except_spec {α β : Type} (f : α → Except Err β) : ∀ (l : List α) (r : List β), l.mapM f = .ok r →
    r.length = l.length ∧ ∀ (k : Nat) (a : α), l[k]? = some a → ∃ b, r[k]? = some b ∧ f a = .ok b
  | [], r, h => by
    simp only [List.mapM_nil, pure, Except.pure, Except.ok.injEq] at h
    subst h; exact ⟨rfl, by intro k a hk; simp at hk⟩
  | x :: xs, r, h => by
    simp only [List.mapM_cons, bind, Except.bind, pure, Except.pure] at h
    cases hx : f x with
    | error e => rw [hx] at h; simp at h
    | ok b =>
      rw [hx] at h
      simp only at h
      cases hxs : xs.mapM f with
      | error e => rw [hxs] at h; simp at h
      | ok bs =>
        rw [hxs] at h
        simp only [Except.ok.injEq] at h
        subst h
        obtain ⟨hl, hg⟩ := mapM_except_spec f xs bs hxs
        refine ⟨by simp [hl], ?_⟩
        intro k a hk
        cases k with
        | zero => simp only [List.getElem?_cons_zero, Option.some.injEq] at hk; subst hk; exact ⟨b, by simp, hx⟩
        | succ k' =>
          simp only [List.getElem?_cons_succ] at hk
          obtain ⟨b', h1, h2⟩ := hg k' a hk
          exact ⟨b', by simpa using h1, h2⟩

/-- a recombination of positions of the space is a position of the space -/
theorem recombine_inSpace {sp : Space} {c : List Nat} {parents : List Pos} {pos : Pos}
    (hpar : ∀ q ∈ parents, InSpace sp q) (hlen : c.length = sp.dims.length) (h : recombine c parents = .ok pos) : InSpace sp pos := by
  unfold recombine at h
  obtain ⟨hl, hg⟩ := mapM_except_spec _ _ _ h
  unfold InSpace
  apply inBox_of_get
  · rw [hl]; simp [hlen, Space.sizes]
  · intro k x hk
    have hklt : k < c.length := by
      have : k < pos.length := by
        by_contra hc
        rw [List.getElem?_eq_none (by omega)] at hk; simp at hk
      rw [hl] at this; simpa using this
    obtain ⟨b, hb1, hb2⟩ := hg k k (by simp [hklt])
    rw [hk] at hb1
    simp only [Option.some.injEq] at hb1
    subst hb1
    split at hb2
    · rename_i par hpar'
      split at hb2
      · rename_i y hy
        simp only [Except.ok.injEq] at hb2
        subst hb2
        exact inBox_get _ _ (hpar par (List.mem_of_getElem? hpar')) k y hy
      · simp at hb2
    · simp at hb2

theorem inSpace_length {sp : Space} {p : Pos} (h : InSpace sp p) : p.length = sp.dims.length := by
  have := inBox_length _ _ h
  simpa [Space.sizes] using this

/-! ### the two ways an individual is made current -/

/-- what `iterate` of a population backend owes the contract, for backends whose state IS the `PopSt` -/
def IterOK (sp : Space) (f : Pos → Bool) (s s' : PopSt) (p : Pos) : Prop :=
  ∃ idx m m', s.members[idx]? = some m ∧ idx < s.members.length ∧
    s'.members = s.members.set idx m' ∧ m'.initL = m.initL ∧ m'.tr.posNew = some p ∧ SameTracked m.tr m'.tr ∧
    s'.cur = idx ∧ s'.tape <:+ s.tape ∧ InSpace sp p ∧ f p = true

theorem getElemOpt_lt {α : Type} {l : List α} {k : Nat} {a : α} (h : l[k]? = some a) : k < l.length := by
  by_contra hc
  rw [List.getElem?_eq_none (by omega)] at h; simp at h

theorem memberIterate_ok {cfg : LocalCfg} {sp : Space} {f : Pos → Bool} (hgeo : cfg.geo = sp.geo) (hsp : SpaceOK sp)
    {s s' : PopSt} {idx : Nat} {tape : Tape} {p : Pos} (hs : tape <:+ s.tape) (ht : TapeOK sp f s.tape)
    (h : memberIterate cfg s idx tape = .ok (p, s')) : IterOK sp f s s' p := by
  unfold memberIterate at h
  cases hm : s.members[idx]? with
  | none => rw [hm] at h; simp at h
  | some m =>
    rw [hm] at h
    simp only [bind, Except.bind, pure, Except.pure] at h
    cases hit : localIterate cfg { m with tape := tape } with
    | error e => rw [hit] at h; simp at h
    | ok y =>
      obtain ⟨q, m'⟩ := y
      rw [hit] at h
      simp only [Except.ok.injEq, Prod.mk.injEq] at h
      obtain ⟨e1, e2⟩ := h
      subst e1 e2
      obtain ⟨hsuf, _, _, htr, hil, _⟩ := localIterate_spec hit
      obtain ⟨hin, hfe⟩ := proposal_ok (s := { m with tape := tape }) hgeo hsp (ht.suffix hs) hit
      exact ⟨idx, m, _, hm, getElemOpt_lt hm, rfl, hil, by simp only; rw [htr]; rfl,
        by simp only; rw [htr]; exact sameTracked_trackNewPos _ _, rfl, hsuf.trans hs, hin, hfe⟩

theorem emitVia_ok {sp : Space} {f : Pos → Bool} {s s' : PopSt} {idx : Nat} {q p : Pos} {tape : Tape}
    (hs : tape <:+ s.tape) (hin : InSpace sp q) (hfe : f q = true) (h : emitVia s idx q tape = .ok (p, s')) : IterOK sp f s s' p := by
  unfold emitVia at h
  cases hm : s.members[idx]? with
  | none => rw [hm] at h; simp at h
  | some m =>
    rw [hm] at h
    simp only [Except.ok.injEq, Prod.mk.injEq] at h
    obtain ⟨e1, e2⟩ := h
    subst e1 e2
    exact ⟨idx, m, _, hm, getElemOpt_lt hm, rfl, rfl, rfl,
      { pb := rfl, sb := rfl, pc := rfl, sc := rfl, pv := rfl, sv := rfl }, rfl, hs, hin, hfe⟩

/-- the repaired position of `move_climb` is a feasible position of the space -/
theorem moveClimb_good {g : Geo} {sp : Space} {f : Pos → Bool} (hgeo : g = sp.geo) (hsp : SpaceOK sp)
    {loc : Option Pos} {e : Option Rat} {fuel : Nat} {tape rest : Tape} {q : Pos} (ht : TapeOK sp f tape)
    (h : moveClimb g loc e fuel tape = .ok (q, rest)) : rest <:+ tape ∧ InSpace sp q ∧ f q = true := by
  obtain ⟨a, b, c⟩ := moveClimb_spec h
  refine ⟨a, ?_, (ht.feas q true b).symm⟩
  cases c with
  | random hr => exact ht.rnd q hr
  | clipped l v hd hp =>
    obtain ⟨hlen, hn⟩ := ht.dist l v hd
    rw [hp, hgeo]; exact clipped_inSpace hsp v hlen hn

theorem posCurrentOf_spec {s : PopSt} {idx : Nat} {p : Pos} (h : posCurrentOf s idx = .ok p) :
    ∃ m, m ∈ s.members ∧ m.tr.posCurrent = some p := by
  unfold posCurrentOf at h
  split at h
  · rename_i m hm
    split at h
    · rename_i q hq
      simp only [Except.ok.injEq] at h; subst h
      exact ⟨m, List.mem_of_getElem? hm, hq⟩
    · simp at h
  · simp at h

/-! ### evolution strategy -/

theorem esCross_ok {cfg : ESCfg} {sp : Space} {f : Pos → Bool} (hgeo : cfg.member.geo = sp.geo) (hsp : SpaceOK sp)
    {s s' : PopSt} {perm : List Nat} {k : Nat} {tape : Tape} {p : Pos} (hs : tape <:+ s.tape) (ht : TapeOK sp f s.tape)
    (hmi : MembersIn sp s) (h : esCross cfg s perm k tape = .ok (p, s')) : IterOK sp f s s' p := by
  unfold esCross at h
  simp only [bind, Except.bind, pure, Except.pure] at h
  cases h1 : takeInt tape with
  | error e => rw [h1] at h; simp at h
  | ok x1 =>
    obtain ⟨k2, t1⟩ := x1
    rw [h1] at h
    simp only at h
    have e1 := takeInt_spec h1
    split at h
    · simp at h
    · cases hpc : posCurrentOf s (perm.getD k 0) with
      | error e => rw [hpc] at h; simp at h
      | ok pc =>
        rw [hpc] at h
        simp only at h
        cases hps : posCurrentOf s (perm.getD k2 0) with
        | error e => rw [hps] at h; simp at h
        | ok ps =>
          rw [hps] at h
          simp only at h
          cases h2 : takeChoice pc.length t1 with
          | error e => rw [h2] at h; simp at h
          | ok x2 =>
            obtain ⟨c, t2⟩ := x2
            rw [h2] at h
            simp only at h
            obtain ⟨e2, hcl⟩ := takeChoice_spec h2
            cases hr : recombine c [pc, ps] with
            | error e => rw [hr] at h; simp at h
            | ok pos =>
              rw [hr] at h
              simp only at h
              obtain ⟨m1, hm1, hq1⟩ := posCurrentOf_spec hpc
              obtain ⟨m2, hm2, hq2⟩ := posCurrentOf_spec hps
              have hpcin : InSpace sp pc := hmi m1 hm1 pc (Or.inl hq1)
              have hpsin : InSpace sp ps := hmi m2 hm2 ps (Or.inl hq2)
              have hposin : InSpace sp pos := recombine_inSpace
                (by intro q hq; simp at hq; rcases hq with rfl | rfl; exact hpcin; exact hpsin)
                (by rw [hcl]; exact inSpace_length hpcin) hr
              have hst2 : t2 <:+ s.tape := by
                have a : t2 <:+ t1 := by rw [e2]; exact List.suffix_cons _ _
                have b : t1 <:+ tape := by rw [e1]; exact List.suffix_cons _ _
                exact (a.trans b).trans hs
              cases h3 : askFeas pos t2 with
              | error e => rw [h3] at h; simp at h
              | ok x3 =>
                obtain ⟨ok, t3⟩ := x3
                rw [h3] at h
                simp only at h
                have e3 := askFeas_spec h3
                have hst3 : t3 <:+ s.tape := (by rw [e3]; exact List.suffix_cons _ _ : t3 <:+ t2).trans hst2
                by_cases hok : ok = true
                · simp only [hok, if_true] at h
                  have hfe : f pos = true := by
                    have := ht.feas pos ok (hst2.subset (by rw [e3]; simp)); rw [← this]; exact hok
                  exact emitVia_ok hst3 hposin hfe h
                · simp only [hok, Bool.false_eq_true, if_false] at h
                  cases h4 : moveClimb cfg.member.geo (some pos) (some 1) s.tape.length t3 with
                  | error e => rw [h4] at h; simp at h
                  | ok x4 =>
                    obtain ⟨q, t4⟩ := x4
                    rw [h4] at h
                    simp only at h
                    obtain ⟨a, b, c'⟩ := moveClimb_good hgeo hsp (ht.suffix hst3) h4
                    exact emitVia_ok (a.trans hst3) b c' h

theorem esIterate_ok {cfg : ESCfg} {sp : Space} {f : Pos → Bool} (hgeo : cfg.member.geo = sp.geo) (hsp : SpaceOK sp)
    {s s' : PopSt} {p : Pos} (ht : TapeOK sp f s.tape) (hmi : MembersIn sp s) (h : esIterate cfg s = .ok (p, s')) :
    IterOK sp f s s' p := by
  unfold esIterate at h
  simp only at h
  split at h
  · exact memberIterate_ok hgeo hsp (List.suffix_refl _) ht h
  · simp only [bind, Except.bind, pure, Except.pure] at h
    cases h1 : popSorted s s.tape with
    | error e => rw [h1] at h; simp at h
    | ok x1 =>
      obtain ⟨perm, t1⟩ := x1
      rw [h1] at h
      simp only at h
      have e1 := popSorted_spec h1
      cases h2 : takeInt t1 with
      | error e => rw [h2] at h; simp at h
      | ok x2 =>
        obtain ⟨k, t2⟩ := x2
        rw [h2] at h
        simp only at h
        have e2 := takeInt_spec h2
        split at h
        · simp at h
        · cases h3 : takeNpUnif t2 with
          | error e => rw [h3] at h; simp at h
          | ok x3 =>
            obtain ⟨x, t3⟩ := x3
            rw [h3] at h
            simp only at h
            have e3 := takeNpUnif_spec h3
            have hst3 : t3 <:+ s.tape := by
              have a : t3 <:+ t2 := by rw [e3]; exact List.suffix_cons _ _
              have b : t2 <:+ t1 := by rw [e2]; exact List.suffix_cons _ _
              have c : t1 <:+ s.tape := by rw [e1]; exact List.suffix_cons _ _
              exact (a.trans b).trans c
            split at h
            · exact memberIterate_ok hgeo hsp hst3 ht h
            · exact esCross_ok hgeo hsp hst3 ht hmi h

theorem es_ok (cfg : ESCfg) (sp : Space) (f : Pos → Bool) (hgeo : cfg.member.geo = sp.geo) (hsp : SpaceOK sp) :
    PopOK (esBackend cfg) (fun s => s) (fun _ => True) sp f :=
  { initPos := fun _ _ _ _ h => ⟨trivial, ptInitPos_ok h⟩
    evalInit := fun _ _ _ _ h => ⟨trivial, ptEvalInit_ok h⟩
    finishInit := fun _ _ h => by simp only [esBackend, Except.ok.injEq] at h; exact h.symm
    iterate := fun _ _ _ ht hmi _ h => ⟨trivial, esIterate_ok hgeo hsp ht hmi h⟩
    evaluate := fun _ _ _ _ h => ⟨trivial, ptEvalMember_ok (List.suffix_refl _) h⟩ }

/-! ### differential evolution -/

/-- `_constraint_loop`: the result is feasible; it is the input or a repaired position of the space -/
theorem constraintLoop_spec {g : Geo} {sp : Space} {f : Pos → Bool} (hgeo : g = sp.geo) (hsp : SpaceOK sp) {eps : Rat}
    {fuel : Nat} {p q : Pos} {tape rest : Tape} (ht : TapeOK sp f tape) (hp : InSpace sp p)
    (h : constraintLoop g eps fuel p tape = .ok (q, rest)) : rest <:+ tape ∧ InSpace sp q ∧ f q = true := by
  induction fuel generalizing p tape with
  | zero => simp [constraintLoop] at h
  | succ n ih =>
    unfold constraintLoop at h
    simp only [bind, Except.bind, pure, Except.pure] at h
    cases h1 : askFeas p tape with
    | error e => rw [h1] at h; simp at h
    | ok x1 =>
      obtain ⟨ok, t1⟩ := x1
      rw [h1] at h
      simp only at h
      have e1 := askFeas_spec h1
      have hs1 : t1 <:+ tape := by rw [e1]; exact List.suffix_cons _ _
      by_cases hok : ok = true
      · simp only [hok, if_true, Except.ok.injEq, Prod.mk.injEq] at h
        obtain ⟨rfl, rfl⟩ := h
        refine ⟨hs1, hp, ?_⟩
        have := ht.feas p ok (by rw [e1]; simp); rw [← this]; exact hok
      · simp only [hok, Bool.false_eq_true, if_false] at h
        cases h2 : moveClimb g (some p) (some eps) n t1 with
        | error e => rw [h2] at h; simp at h
        | ok x2 =>
          obtain ⟨q2, t2⟩ := x2
          rw [h2] at h
          simp only at h
          obtain ⟨a, b, _⟩ := moveClimb_good hgeo hsp (ht.suffix hs1) h2
          obtain ⟨a', b', c'⟩ := ih ((ht.suffix hs1).suffix a) b h
          exact ⟨(a'.trans a).trans hs1, b', c'⟩

theorem deChoose_length : ∀ (c : List Nat) (t : Pos) (v : List F), c.length = t.length → v.length = t.length →
    (deChoose c t v).length = t.length
  | [], [], [], _, _ => rfl
  | [], _ :: _, _, h, _ => by simp at h
  | _ :: _, [], _, h, _ => by simp at h
  | _, _ :: _, [], _, h => by simp at h
  | [], [], _ :: _, _, h => by simp at h
  | c :: cs, t :: ts, v :: vs, h1, h2 => by
    simp only [deChoose, List.length_cons]
    rw [deChoose_length cs ts vs (by simpa using h1) (by simpa using h2)]

theorem deChoose_noNan : ∀ (c : List Nat) (t : Pos) (v : List F), noNan v = true → noNan (deChoose c t v) = true
  | [], _, _, _ => by simp [deChoose, noNan]
  | _ :: _, [], _, _ => by simp [deChoose, noNan]
  | _ :: _, _ :: _, [], _ => by simp [deChoose, noNan]
  | c :: cs, t :: ts, v :: vs, h => by
    have hv : v.isNan = false ∧ noNan vs = true := by
      simp only [noNan, List.any_cons, Bool.not_eq_true', Bool.or_eq_false_iff] at h ⊢
      exact ⟨h.1, by simpa using h.2⟩
    have ih := deChoose_noNan cs ts vs hv.2
    simp only [deChoose, noNan, List.any_cons, Bool.not_eq_true', Bool.or_eq_false_iff] at ih ⊢
    refine ⟨?_, ih⟩
    split
    · rfl
    · exact hv.1

theorem inSpace_inMax (dims : List (List Rat)) (p : Pos) (h : inBox (dims.map List.length) p = true) :
    inMax (dims.map (fun d => (d.length : Int) - 1)) p := by
  induction dims generalizing p with
  | nil => cases p <;> simp_all [inMax, inBox]
  | cons d ds ih =>
    cases p with
    | nil => simp [inBox] at h
    | cons x xs =>
      simp only [List.map_cons, inBox, Bool.and_eq_true, decide_eq_true_eq] at h
      simp only [List.map_cons, inMax]
      exact ⟨h.1.1, by omega, ih xs h.2⟩

/-- `conv2pos` of a position of the space is that position (no far-outside fallback, nothing read from the tape) -/
theorem conv2posT_id {sp : Space} (hsp : SpaceOK sp) {p : Pos} (hp : InSpace sp p) (tape : Tape) :
    conv2posT sp.geo (p.map F.ofInt) tape = .ok (p, tape) := by
  have hin : inMax sp.maxPositions p := inSpace_inMax sp.dims p hp
  have hM : ∀ m ∈ sp.maxPositions, m ≤ INT64_MAX := by
    intro m hm
    simp only [Space.maxPositions, List.mem_map] at hm
    obtain ⟨d, hd, rfl⟩ := hm
    exact (hsp d hd).2
  have key := fun rnd => C08.moveClimb_no_dead_state p sp.maxPositions sp.size rnd hin hM
  unfold conv2posT
  simp only [Space.geo]
  have k1 := key (p ++ [0])
  unfold conv2pos at k1
  simp only at k1
  split at k1
  · exact absurd k1 (by intro e; have := congrArg List.length e; simp at this)
  · rename_i hfar
    simp only [hfar, Bool.false_eq_true, if_false]
    rw [k1]

theorem deIterate_ok {cfg : DECfg} {sp : Space} {f : Pos → Bool} (hgeo : cfg.member.geo = sp.geo) (hsp : SpaceOK sp)
    {s s' : PopSt} {p : Pos} (ht : TapeOK sp f s.tape) (hmi : MembersIn sp s) (h : deIterate cfg s = .ok (p, s')) :
    IterOK sp f s s' p := by
  unfold deIterate at h
  simp only [bind, Except.bind, pure, Except.pure] at h
  cases hpk : s.pick with
  | error e => rw [hpk] at h; simp at h
  | ok x =>
    obtain ⟨idx, m⟩ := x
    rw [hpk] at h
    simp only at h
    obtain ⟨hget, hidx⟩ := pick_spec hpk
    cases hpn : m.tr.posNew with
    | none => rw [hpn] at h; simp at h
    | some target =>
      rw [hpn] at h
      simp only at h
      have htin : InSpace sp target := hmi m (List.mem_of_getElem? hget) target (Or.inr hpn)
      have htl := inSpace_length htin
      cases htape : s.tape with
      | nil => rw [htape] at h; simp at h
      | cons d0 t1 =>
        rw [htape] at h
        cases d0 with
        | mutant v =>
          simp only at h
          cases h2 : takeChoice target.length t1 with
          | error e => rw [h2] at h; simp at h
          | ok x2 =>
            obtain ⟨c, t2⟩ := x2
            rw [h2] at h
            simp only at h
            obtain ⟨e2, hcl⟩ := takeChoice_spec h2
            split at h
            · simp at h
            · rename_i hguard
              have hvl : v.length = target.length := by
                by_contra hc; exact hguard (Or.inl hc)
              have hst1 : t1 <:+ s.tape := by rw [htape]; exact List.suffix_cons _ _
              have hst2 : t2 <:+ s.tape := (by rw [e2]; exact List.suffix_cons _ _ : t2 <:+ t1).trans hst1
              have hvn : noNan v = true := ht.mutant v (by rw [htape]; simp)
              cases h3 : conv2posT cfg.member.geo (deChoose c target v) t2 with
              | error e => rw [h3] at h; simp at h
              | ok x3 =>
                obtain ⟨p1, t3⟩ := x3
                rw [h3] at h
                simp only at h
                obtain ⟨hs3, horig, _⟩ := conv2posT_spec h3
                have hst3 : t3 <:+ s.tape := hs3.trans hst2
                have hp1 : InSpace sp p1 := by
                  rcases horig with e | ⟨e, _⟩
                  · rw [e, hgeo]
                    exact clipped_inSpace hsp _ (by rw [deChoose_length c target v hcl hvl, htl]) (deChoose_noNan c target v hvn)
                  · exact (ht.suffix hst2).rnd p1 e
                cases h4 : constraintLoop cfg.member.geo cfg.epsMod (t3.length + 1) p1 t3 with
                | error e => rw [h4] at h; simp at h
                | ok x4 =>
                  obtain ⟨p2, t4⟩ := x4
                  rw [h4] at h
                  simp only at h
                  obtain ⟨hs4, hp2, hf2⟩ := constraintLoop_spec hgeo hsp (ht.suffix hst3) hp1 h4
                  rw [hgeo, conv2posT_id hsp hp2 t4] at h
                  simp only at h
                  exact emitVia_ok (hs4.trans hst3) hp2 hf2 h
        | unif _ => simp at h
        | climb _ _ => simp at h
        | dist _ _ => simp at h
        | rnd _ => simp at h
        | feas _ _ => simp at h
        | accept _ _ => simp at h
        | part _ _ => simp at h
        | spiral _ => simp at h
        | sorted _ => simp at h
        | int _ => simp at h
        | npunif _ => simp at h
        | choice _ => simp at h
        | parents _ => simp at h
        | inits _ => simp at h
        | vec _ => simp at h

theorem de_ok (cfg : DECfg) (sp : Space) (f : Pos → Bool) (hgeo : cfg.member.geo = sp.geo) (hsp : SpaceOK sp) :
    PopOK (deBackend cfg) (fun s => s) (fun _ => True) sp f :=
  { initPos := fun _ _ _ _ h => ⟨trivial, ptInitPos_ok h⟩
    evalInit := fun _ _ _ _ h => ⟨trivial, ptEvalInit_ok h⟩
    finishInit := fun _ _ h => by simp only [deBackend, Except.ok.injEq] at h; exact h.symm
    iterate := fun _ _ _ ht hmi _ h => ⟨trivial, deIterate_ok hgeo hsp ht hmi h⟩
    evaluate := fun _ _ _ _ h => ⟨trivial, ptEvalMember_ok (List.suffix_refl _) h⟩ }

/-! ### genetic algorithm -/

/-- what the GA backend keeps true besides the population invariant: queued offspring are feasible positions of the space -/
def OffspringOK (sp : Space) (f : Pos → Bool) (g : GASt) : Prop := ∀ o ∈ g.offspring, InSpace sp o ∧ f o = true

theorem posNewOf_spec {s : PopSt} {idx : Nat} {p : Pos} (h : posNewOf s idx = .ok p) :
    ∃ m, m ∈ s.members ∧ m.tr.posNew = some p := by
  unfold posNewOf at h
  split at h
  · rename_i m hm
    split at h
    · rename_i q hq
      simp only [Except.ok.injEq] at h; subst h
      exact ⟨m, List.mem_of_getElem? hm, hq⟩
    · simp at h
  · simp at h

theorem gaOffspring_spec {cfg : GACfg} {sp : Space} {f : Pos → Bool} (hgeo : cfg.member.geo = sp.geo) (hsp : SpaceOK sp)
    {parents : List Pos} (hpar : ∀ q ∈ parents, InSpace sp q) (hne : parents ≠ []) {n : Nat} {acc offs : List Pos} {tape rest : Tape}
    (ht : TapeOK sp f tape) (hacc : ∀ o ∈ acc, InSpace sp o ∧ f o = true)
    (h : gaOffspring cfg parents n acc tape = .ok (offs, rest)) : rest <:+ tape ∧ ∀ o ∈ offs, InSpace sp o ∧ f o = true := by
  induction n generalizing acc tape with
  | zero =>
    simp only [gaOffspring, Except.ok.injEq, Prod.mk.injEq] at h
    obtain ⟨rfl, rfl⟩ := h
    exact ⟨List.suffix_refl _, hacc⟩
  | succ k ih =>
    unfold gaOffspring at h
    simp only [bind, Except.bind, pure, Except.pure] at h
    cases h1 : takeChoice (parents.headD []).length tape with
    | error e => rw [h1] at h; simp at h
    | ok x1 =>
      obtain ⟨c, t1⟩ := x1
      rw [h1] at h
      simp only at h
      obtain ⟨e1, hcl⟩ := takeChoice_spec h1
      have hs1 : t1 <:+ tape := by rw [e1]; exact List.suffix_cons _ _
      cases h2 : recombine c parents with
      | error e => rw [h2] at h; simp at h
      | ok pos =>
        rw [h2] at h
        simp only at h
        have hhead : InSpace sp (parents.headD []) := by
          cases parents with
          | nil => exact absurd rfl hne
          | cons a as => exact hpar a (by simp)
        have hposin : InSpace sp pos := recombine_inSpace hpar (by rw [hcl]; exact inSpace_length hhead) h2
        cases h3 : constraintLoop cfg.member.geo cfg.epsMod (t1.length + 1) pos t1 with
        | error e => rw [h3] at h; simp at h
        | ok x3 =>
          obtain ⟨q, t2⟩ := x3
          rw [h3] at h
          simp only at h
          obtain ⟨hs2, hq, hfq⟩ := constraintLoop_spec hgeo hsp (ht.suffix hs1) hposin h3
          obtain ⟨a, b⟩ := ih ((ht.suffix hs1).suffix hs2)
            (by intro o ho; rcases List.mem_append.mp ho with ho | ho
                · exact hacc o ho
                · simp at ho; subst ho; exact ⟨hq, hfq⟩) h
          exact ⟨(a.trans hs2).trans hs1, b⟩

theorem gaFittest_suffix {perm : List Nat} {x : Rat} {tape t3 : Tape} {fit : List Nat}
    (h : gaFittest perm x tape = .ok (fit, t3)) : t3 <:+ tape := by
  unfold gaFittest at h
  simp only at h
  split at h
  · cases ha : takeInt tape with
    | error e => rw [ha] at h; simp at h
    | ok ya =>
      rw [ha] at h
      simp only at h
      split at h
      · simp at h
      · split at h
        · simp at h
        · cases hb : takeInt ya.2 with
          | error e => rw [hb] at h; simp at h
          | ok yb =>
            rw [hb] at h
            simp only at h
            split at h
            · simp only [Except.ok.injEq, Prod.mk.injEq] at h
              obtain ⟨_, rfl⟩ := h
              have ea := takeInt_spec (show takeInt tape = .ok (ya.1, ya.2) from ha)
              have eb := takeInt_spec (show takeInt ya.2 = .ok (yb.1, yb.2) from hb)
              have a1 : yb.2 <:+ ya.2 := by rw [eb]; exact List.suffix_cons _ _
              have a2 : ya.2 <:+ tape := by rw [ea]; exact List.suffix_cons _ _
              exact a1.trans a2
            · simp at h
  · simp only [Except.ok.injEq, Prod.mk.injEq] at h
    obtain ⟨_, rfl⟩ := h
    exact List.suffix_refl _

theorem gaParents_spec {cfg : GACfg} {sp : Space} {f : Pos → Bool} (hgeo : cfg.member.geo = sp.geo) (hsp : SpaceOK sp)
    {s : PopSt} {tape rest : Tape} {offs : List Pos} (ht : TapeOK sp f tape) (hmi : MembersIn sp s)
    (h : gaParents cfg s tape = .ok (offs, rest)) : rest <:+ tape ∧ ∀ o ∈ offs, InSpace sp o ∧ f o = true := by
  unfold gaParents at h
  split at h
  · rename_i idxs t4
    cases hps : idxs.mapM (posNewOf s) with
    | error e => rw [hps] at h; simp at h
    | ok ps =>
      rw [hps] at h
      simp only at h
      split at h
      · simp at h
      · rename_i hne
        have hs4 : t4 <:+ Draw.parents idxs :: t4 := List.suffix_cons _ _
        have hpar : ∀ q ∈ ps, InSpace sp q := by
          intro q hq
          obtain ⟨hl, hg⟩ := mapM_except_spec _ _ _ hps
          obtain ⟨k, hk, hget⟩ := List.getElem_of_mem hq
          have hk' : k < idxs.length := by rw [← hl]; exact hk
          obtain ⟨b, hb1, hb2⟩ := hg k idxs[k] (List.getElem?_eq_getElem hk')
          rw [List.getElem?_eq_getElem hk, Option.some.injEq] at hb1
          rw [← hb1, hget] at hb2
          obtain ⟨m, hm, hpn⟩ := posNewOf_spec hb2
          exact hmi m hm q (Or.inr hpn)
        obtain ⟨a, b⟩ := gaOffspring_spec hgeo hsp hpar hne (ht.suffix hs4) (by intro o ho; simp at ho) h
        exact ⟨a.trans hs4, b⟩
  · simp at h
  · simp at h

theorem gaCrossover_spec {cfg : GACfg} {sp : Space} {f : Pos → Bool} (hgeo : cfg.member.geo = sp.geo) (hsp : SpaceOK sp)
    {s : PopSt} {tape rest : Tape} {offs : List Pos} (ht : TapeOK sp f tape) (hmi : MembersIn sp s)
    (h : gaCrossover cfg s tape = .ok (offs, rest)) : rest <:+ tape ∧ ∀ o ∈ offs, InSpace sp o ∧ f o = true := by
  unfold gaCrossover at h
  cases h1 : popSorted s tape with
  | error e => rw [h1] at h; simp at h
  | ok x1 =>
    rw [h1] at h
    simp only at h
    have e1 := popSorted_spec (show popSorted s tape = .ok (x1.1, x1.2) from h1)
    have hs1 : x1.2 <:+ tape := by rw [e1]; exact List.suffix_cons _ _
    cases h2 : takeRand01 x1.2 with
    | error e => rw [h2] at h; simp at h
    | ok x2 =>
      rw [h2] at h
      simp only at h
      have e2 := takeRand01_spec (show takeRand01 x1.2 = .ok (x2.1, x2.2) from h2)
      have hs2 : x2.2 <:+ tape := (by rw [e2]; exact List.suffix_cons _ _ : x2.2 <:+ x1.2).trans hs1
      cases h3 : gaFittest x1.1 x2.1 x2.2 with
      | error e => rw [h3] at h; simp at h
      | ok x3 =>
        rw [h3] at h
        simp only at h
        have hs3 : x3.2 <:+ tape := (gaFittest_suffix (show gaFittest x1.1 x2.1 x2.2 = .ok (x3.1, x3.2) from h3)).trans hs2
        split at h
        · obtain ⟨a, b⟩ := gaParents_spec hgeo hsp (ht.suffix hs3) hmi h
          exact ⟨a.trans hs3, b⟩
        · simp at h

/-- `IterOK` for the GA state (view = `.pop`) together with the offspring invariant -/
def GAIterOK (sp : Space) (f : Pos → Bool) (g g' : GASt) (p : Pos) : Prop :=
  OffspringOK sp f g' ∧ IterOK sp f g.pop g'.pop p

theorem gaMutate_ok {cfg : GACfg} {sp : Space} {f : Pos → Bool} (hgeo : cfg.member.geo = sp.geo) (hsp : SpaceOK sp)
    {g g' : GASt} {idx : Nat} {tape : Tape} {p : Pos} (hs : tape <:+ g.pop.tape) (ht : TapeOK sp f g.pop.tape)
    (hx : OffspringOK sp f g) (h : gaMutate cfg g idx tape = .ok (p, g')) : GAIterOK sp f g g' p := by
  unfold gaMutate at h
  cases hm : memberIterate cfg.member g.pop idx tape with
  | error e => rw [hm] at h; simp at h
  | ok y =>
    rw [hm] at h
    simp only [Except.ok.injEq, Prod.mk.injEq] at h
    obtain ⟨e1, e2⟩ := h
    subst e1 e2
    exact ⟨hx, memberIterate_ok hgeo hsp hs ht (show memberIterate cfg.member g.pop idx tape = .ok (y.1, y.2) from hm)⟩

theorem gaCross_ok {cfg : GACfg} {sp : Space} {f : Pos → Bool} (hgeo : cfg.member.geo = sp.geo) (hsp : SpaceOK sp)
    {g g' : GASt} {cur : Nat} {tape : Tape} {p : Pos} (hs : tape <:+ g.pop.tape) (ht : TapeOK sp f g.pop.tape)
    (hmi : MembersIn sp g.pop) (hx : OffspringOK sp f g) (h : gaCross cfg g cur tape = .ok (p, g')) : GAIterOK sp f g g' p := by
  unfold gaCross at h
  cases h1 : (if g.offspring = [] then gaCrossover cfg g.pop tape else Except.ok (g.offspring, tape)) with
  | error e => rw [h1] at h; simp at h
  | ok x =>
    rw [h1] at h
    simp only at h
    have hoffs : x.2 <:+ tape ∧ ∀ o ∈ x.1, InSpace sp o ∧ f o = true := by
      split at h1
      · exact gaCrossover_spec hgeo hsp (ht.suffix hs) hmi (show gaCrossover cfg g.pop tape = .ok (x.1, x.2) from h1)
      · simp only [Except.ok.injEq] at h1
        subst h1
        exact ⟨List.suffix_refl _, hx⟩
    cases hx1 : x.1 with
    | nil => rw [hx1] at h; simp at h
    | cons o rest =>
      rw [hx1] at h
      simp only at h
      cases he : emitVia g.pop cur o x.2 with
      | error e => rw [he] at h; simp at h
      | ok y =>
        rw [he] at h
        simp only [Except.ok.injEq, Prod.mk.injEq] at h
        obtain ⟨e1, e2⟩ := h
        subst e1 e2
        have ho := hoffs.2 o (by rw [hx1]; simp)
        refine ⟨?_, emitVia_ok (hoffs.1.trans hs) ho.1 ho.2 (show emitVia g.pop cur o x.2 = .ok (y.1, y.2) from he)⟩
        intro o' ho'
        exact hoffs.2 o' (by rw [hx1]; exact List.mem_cons_of_mem _ ho')

theorem gaIterate_ok {cfg : GACfg} {sp : Space} {f : Pos → Bool} (hgeo : cfg.member.geo = sp.geo) (hsp : SpaceOK sp)
    {g g' : GASt} {p : Pos} (ht : TapeOK sp f g.pop.tape) (hmi : MembersIn sp g.pop) (hx : OffspringOK sp f g)
    (h : gaIterate cfg g = .ok (p, g')) : GAIterOK sp f g g' p := by
  unfold gaIterate at h
  split at h
  · exact gaMutate_ok hgeo hsp (List.suffix_refl _) ht hx h
  · cases h1 : popSorted g.pop g.pop.tape with
    | error e => rw [h1] at h; simp at h
    | ok x1 =>
      rw [h1] at h
      simp only at h
      have e1 := popSorted_spec (show popSorted g.pop g.pop.tape = .ok (x1.1, x1.2) from h1)
      have hs1 : x1.2 <:+ g.pop.tape := by rw [e1]; exact List.suffix_cons _ _
      cases h2 : takeInt x1.2 with
      | error e => rw [h2] at h; simp at h
      | ok x2 =>
        rw [h2] at h
        simp only at h
        have e2 := takeInt_spec (show takeInt x1.2 = .ok (x2.1, x2.2) from h2)
        have hs2 : x2.2 <:+ g.pop.tape := (by rw [e2]; exact List.suffix_cons _ _ : x2.2 <:+ x1.2).trans hs1
        unfold gaBranch at h
        split at h
        · simp at h
        · cases h3 : takeNpUnif x2.2 with
          | error e => rw [h3] at h; simp at h
          | ok x3 =>
            rw [h3] at h
            simp only at h
            have e3 := takeNpUnif_spec (show takeNpUnif x2.2 = .ok (x3.1, x3.2) from h3)
            have hs3 : x3.2 <:+ g.pop.tape := (by rw [e3]; exact List.suffix_cons _ _ : x3.2 <:+ x2.2).trans hs2
            split at h
            · exact gaMutate_ok hgeo hsp hs3 ht hx h
            · exact gaCross_ok hgeo hsp hs3 ht hmi hx h

theorem map_ok_inv {α β : Type} {x : Except Err α} {fn : α → β} {y : β} (h : x.map fn = .ok y) : ∃ a, x = .ok a ∧ fn a = y := by
  cases x with
  | error e => simp [Except.map] at h
  | ok a => simp only [Except.map, Except.ok.injEq] at h; exact ⟨a, rfl, h⟩

theorem ga_ok (cfg : GACfg) (sp : Space) (f : Pos → Bool) (hgeo : cfg.member.geo = sp.geo) (hsp : SpaceOK sp) :
    PopOK (gaBackend cfg) (fun g => g.pop) (OffspringOK sp f) sp f :=
  { initPos := by
      intro g p g' hx h
      obtain ⟨a, ha, hfa⟩ := map_ok_inv (show (ptInitPos g.pop).map _ = .ok (p, g') from h)
      simp only [Prod.mk.injEq] at hfa
      obtain ⟨e1, e2⟩ := hfa
      subst e1 e2
      exact ⟨hx, ptInitPos_ok (show ptInitPos g.pop = .ok (a.1, a.2) from ha)⟩
    evalInit := by
      intro g score g' hx h
      obtain ⟨a, ha, hfa⟩ := map_ok_inv (show (ptEvalInit g.pop score).map _ = .ok g' from h)
      subst hfa
      exact ⟨hx, ptEvalInit_ok ha⟩
    finishInit := fun _ _ h => by simp only [gaBackend, Except.ok.injEq] at h; exact h.symm
    iterate := fun _ _ _ ht hmi hx h => gaIterate_ok hgeo hsp ht hmi hx h
    evaluate := by
      intro g score g' hx h
      obtain ⟨a, ha, hfa⟩ := map_ok_inv (show (psoEvaluate cfg.member g.pop score).map _ = .ok g' from h)
      subst hfa
      exact ⟨hx, ptEvalMember_ok (List.suffix_refl _) ha⟩ }

/-! ### the property theorems -/

/-- C01 + C02, evolution strategy (mutation by the individual's `iterate`, crossover by recombination of two individuals'
    current positions written to the worst individual, outer constraint check, `move_climb` repair) -/
theorem C01_C02_es_positions {cfg : ESCfg} {sp : Space} {obj : Obj} {c : Call} {f : Pos → Bool} {tape0 : Tape}
    {inits0 : List (List Pos)} {d d' : DState PopSt} {r : CallResult}
    (hgeo : cfg.member.geo = sp.geo) (hsp : SpaceOK sp) (ht : TapeOK sp f tape0)
    (hi : ∀ l ∈ inits0, ∀ q ∈ l, InSpace sp q ∧ f q = true)
    (hP : Inv (fun s : PopSt => s) (fun _ => True) sp tape0 inits0 d) (hn : 0 < c.nIter)
    (h : searchCall (esBackend cfg) sp obj c d = .ok (d', r)) : ∀ p ∈ C04.newPos d d', InSpace sp p ∧ f p = true :=
  (pop_call (es_ok cfg sp f hgeo hsp) ht hi hP hn h).2

/-- C19, every individual of an evolution strategy population (fix 7daf0d5: the repaired position is what the worst
    individual records) -/
theorem C19_es_members_grounded {cfg : ESCfg} {sp : Space} {obj : Obj} {c : Call} {f : Pos → Bool} {tape0 : Tape}
    {inits0 : List (List Pos)} {d d' : DState PopSt} {r : CallResult}
    (hgeo : cfg.member.geo = sp.geo) (hsp : SpaceOK sp) (ht : TapeOK sp f tape0)
    (hi : ∀ l ∈ inits0, ∀ q ∈ l, InSpace sp q ∧ f q = true)
    (hP : Inv (fun s : PopSt => s) (fun _ => True) sp tape0 inits0 d) (hn : 0 < c.nIter)
    (h : searchCall (esBackend cfg) sp obj c d = .ok (d', r)) : ∀ m ∈ d'.bst.members, Grounded (evalLog d') m.tr :=
  (pop_call (es_ok cfg sp f hgeo hsp) ht hi hP hn h).1.grounded

/-- C01 + C02, differential evolution -/
theorem C01_C02_de_positions {cfg : DECfg} {sp : Space} {obj : Obj} {c : Call} {f : Pos → Bool} {tape0 : Tape}
    {inits0 : List (List Pos)} {d d' : DState PopSt} {r : CallResult}
    (hgeo : cfg.member.geo = sp.geo) (hsp : SpaceOK sp) (ht : TapeOK sp f tape0)
    (hi : ∀ l ∈ inits0, ∀ q ∈ l, InSpace sp q ∧ f q = true)
    (hP : Inv (fun s : PopSt => s) (fun _ => True) sp tape0 inits0 d) (hn : 0 < c.nIter)
    (h : searchCall (deBackend cfg) sp obj c d = .ok (d', r)) : ∀ p ∈ C04.newPos d d', InSpace sp p ∧ f p = true :=
  (pop_call (de_ok cfg sp f hgeo hsp) ht hi hP hn h).2

/-- C19, every individual of a differential evolution population -/
theorem C19_de_members_grounded {cfg : DECfg} {sp : Space} {obj : Obj} {c : Call} {f : Pos → Bool} {tape0 : Tape}
    {inits0 : List (List Pos)} {d d' : DState PopSt} {r : CallResult}
    (hgeo : cfg.member.geo = sp.geo) (hsp : SpaceOK sp) (ht : TapeOK sp f tape0)
    (hi : ∀ l ∈ inits0, ∀ q ∈ l, InSpace sp q ∧ f q = true)
    (hP : Inv (fun s : PopSt => s) (fun _ => True) sp tape0 inits0 d) (hn : 0 < c.nIter)
    (h : searchCall (deBackend cfg) sp obj c d = .ok (d', r)) : ∀ m ∈ d'.bst.members, Grounded (evalLog d') m.tr :=
  (pop_call (de_ok cfg sp f hgeo hsp) ht hi hP hn h).1.grounded

/-- C01 + C02, genetic algorithm - including offspring that were queued by an earlier step (or an earlier call) -/
theorem C01_C02_ga_positions {cfg : GACfg} {sp : Space} {obj : Obj} {c : Call} {f : Pos → Bool} {tape0 : Tape}
    {inits0 : List (List Pos)} {d d' : DState GASt} {r : CallResult}
    (hgeo : cfg.member.geo = sp.geo) (hsp : SpaceOK sp) (ht : TapeOK sp f tape0)
    (hi : ∀ l ∈ inits0, ∀ q ∈ l, InSpace sp q ∧ f q = true)
    (hP : Inv (fun g : GASt => g.pop) (OffspringOK sp f) sp tape0 inits0 d) (hn : 0 < c.nIter)
    (h : searchCall (gaBackend cfg) sp obj c d = .ok (d', r)) : ∀ p ∈ C04.newPos d d', InSpace sp p ∧ f p = true :=
  (pop_call (ga_ok cfg sp f hgeo hsp) ht hi hP hn h).2

/-- C19, every individual of a genetic algorithm population -/
theorem C19_ga_members_grounded {cfg : GACfg} {sp : Space} {obj : Obj} {c : Call} {f : Pos → Bool} {tape0 : Tape}
    {inits0 : List (List Pos)} {d d' : DState GASt} {r : CallResult}
    (hgeo : cfg.member.geo = sp.geo) (hsp : SpaceOK sp) (ht : TapeOK sp f tape0)
    (hi : ∀ l ∈ inits0, ∀ q ∈ l, InSpace sp q ∧ f q = true)
    (hP : Inv (fun g : GASt => g.pop) (OffspringOK sp f) sp tape0 inits0 d) (hn : 0 < c.nIter)
    (h : searchCall (gaBackend cfg) sp obj c d = .ok (d', r)) : ∀ m ∈ d'.bst.pop.members, Grounded (evalLog d') m.tr :=
  (pop_call (ga_ok cfg sp f hgeo hsp) ht hi hP hn h).1.grounded

/-- the invariant keeps holding, so all of the above chain over any history of calls (statement for GA; the others alike) -/
theorem ga_invariant_kept {cfg : GACfg} {sp : Space} {obj : Obj} {c : Call} {f : Pos → Bool} {tape0 : Tape}
    {inits0 : List (List Pos)} {d d' : DState GASt} {r : CallResult}
    (hgeo : cfg.member.geo = sp.geo) (hsp : SpaceOK sp) (ht : TapeOK sp f tape0)
    (hi : ∀ l ∈ inits0, ∀ q ∈ l, InSpace sp q ∧ f q = true)
    (hP : Inv (fun g : GASt => g.pop) (OffspringOK sp f) sp tape0 inits0 d) (hn : 0 < c.nIter)
    (h : searchCall (gaBackend cfg) sp obj c d = .ok (d', r)) : Inv (fun g : GASt => g.pop) (OffspringOK sp f) sp tape0 inits0 d' :=
  (pop_call (ga_ok cfg sp f hgeo hsp) ht hi hP hn h).1

end GFO.EvoRuns
