/-
  C10 (b) + (c) through the complete models of the six population optimizers (ParallelTempering, ParticleSwarm,
  SpiralOptimization, EvolutionStrategy, DifferentialEvolution, GeneticAlgorithm): a FRESH population evaluates, in the
  first `n_inits` steps of a call, the round-robin interleaving of its members' start-up lists - step `t` is entry `t / n` of
  member `t % n` - whatever the objective, the tape, the arguments and the stopping criteria.  Together with
  `GFO.C10.deal_order` (the split deals position `t` of the population's list to member `t % n` as its entry `t / n`) this is:
  a population evaluates ITS list of initial positions in order.
-/
import GFO.Props.InitRuns
import GFO.Model.Evolution
import GFO.Props.EvoRuns
namespace GFO.InitRuns
open GFO GFO.EvoRuns
variable {σ : Type}

/-- like `ListInitI`, with an intermediate invariant between `init_pos` and `evaluate_init` (a population's counter moves
    in `evaluate_init`, its members' counters in `init_pos`) -/
structure ListInitJ (b : Backend σ) (L : List Pos) (nth : σ → Nat) (I : σ → Prop) (J : Nat → σ → Prop) : Prop where
  initPos : ∀ s p s', I s → nth s < L.length → b.initPos s = .ok (p, s') → L[nth s]? = some p ∧ J (nth s) s'
  evalInit : ∀ k s x s', J k s → b.evalInit s x = .ok s' → nth s' = k + 1 ∧ I s'

theorem init_list_evaluated_invJ {b : Backend σ} {sp : Space} {obj : Obj} {c : Call} {d d' : DState σ} {r : CallResult}
    {L : List Pos} {nth : σ → Nat} {I : σ → Prop} {J : Nat → σ → Prop} (hb : ListInitJ b L nth I J)
    (h : searchCall b sp obj c d = .ok (d', r)) (hn : 0 < c.nIter)
    (hfresh : d.posL = [] ∧ d.nInitTotal = 0 ∧ nth d.bst = 0 ∧ I d.bst) (hL : L.length = d.nInits) :
    d'.posL.take (min r.steps L.length) = L.take (min r.steps L.length) := by
  let n := min L.length c.nIter
  let P : Nat → DState σ → CState → Prop := fun i dd cs =>
    cs.nInitsNorm = n ∧ dd.posL.length = i ∧ dd.posL.take (min i L.length) = L.take (min i L.length) ∧
    (i ≤ n → nth dd.bst = i ∧ I dd.bst)
  have hstep : ∀ i (dd d1 : DState σ) (cs cs1 : CState) p v e, P i dd cs → i < c.nIter → StepFacts sp obj c i dd d1 cs cs1 p v e →
      BStep b (i < cs.nInitsNorm) dd.bst d1.bst p e.res.score → P (i + 1) d1 cs1 := by
    intro i dd d1 cs cs1 p v e ⟨hnorm, hlen, htake, hnth⟩ hiter f hbs
    refine ⟨by rw [f.nInitsNorm]; exact hnorm, by rw [f.posL]; simp [hlen], ?_, ?_⟩
    · rw [f.posL]
      rcases hbs with ⟨hlt, s1, hi, he⟩ | ⟨hge, _⟩
      · rw [hnorm] at hlt
        have hiL : i < L.length := by simp only [n] at hlt; omega
        obtain ⟨hnthi, hI⟩ := hnth (by omega)
        obtain ⟨hget, _⟩ := hb.initPos _ _ _ hI (by rw [hnthi]; exact hiL) hi
        rw [hnthi] at hget
        have e1 : min (i + 1) L.length = i + 1 := by omega
        have e0 : min i L.length = i := by omega
        rw [e1]
        rw [e0] at htake
        have hposi : dd.posL = L.take i := by
          have := List.take_of_length_le (Nat.le_of_eq hlen) (l := dd.posL)
          rw [← this]; exact htake
        have hLi : L.take (i + 1) = L.take i ++ [p] := by
          rw [List.take_add_one, hget]; simp
        rw [hposi, hLi]
        apply List.take_of_length_le
        simp [List.length_take]
      · rw [hnorm] at hge
        have hiL : L.length ≤ i := by simp only [n] at hge; omega
        have e1 : min (i + 1) L.length = L.length := by omega
        have e0 : min i L.length = L.length := by omega
        rw [e1]; rw [e0] at htake
        rw [List.take_append_of_le_length (by omega)]
        exact htake
    · intro hle
      rcases hbs with ⟨hlt, s1, hi, he⟩ | ⟨hge, _⟩
      · obtain ⟨hnthi, hI⟩ := hnth (by omega)
        rw [hnorm] at hlt
        have hiL : i < L.length := by simp only [n] at hlt; omega
        obtain ⟨_, hJ⟩ := hb.initPos _ _ _ hI (by rw [hnthi]; exact hiL) hi
        obtain ⟨hn2, hI2⟩ := hb.evalInit _ _ _ _ hJ he
        exact ⟨by rw [hn2, hnthi], hI2⟩
      · rw [hnorm] at hge; omega
  have hstart : ∀ cs, initSearch sp c d = .ok cs → P 0 d cs := by
    intro cs hcs
    obtain ⟨_, _, hnorm, _⟩ := initSearch_ok hcs
    refine ⟨by rw [hnorm, hfresh.2.1, ← hL]; simp only [n]; omega, by rw [hfresh.1]; rfl, by simp, fun _ => ⟨hfresh.2.2.1, hfresh.2.2.2⟩⟩
  obtain ⟨cs, d1, cs1, _, hfin, hP⟩ := searchCall_inv_idx P hstep h hn hstart
  have hf := finishSearch_ok hfin
  rw [hf.2.1]
  exact hP.2.2.1

/-! ### the round-robin arithmetic: member `j` of `n` has been asked `(k + n - 1 - j) / n` times after `k` trials -/

theorem asked_self (n k : Nat) (hn : 0 < n) : (k + n - 1 - k % n) / n = k / n := by
  have hk := Nat.div_add_mod k n
  have hr := Nat.mod_lt k hn
  generalize k / n = q at *
  generalize k % n = r at *
  have : k + n - 1 - r = n * q + (n - 1) := by omega
  rw [this, Nat.mul_add_div hn, Nat.div_eq_of_lt (by omega)]
  rfl

theorem asked_next_self (n k : Nat) (hn : 0 < n) : (k + 1 + n - 1 - k % n) / n = k / n + 1 := by
  have hk := Nat.div_add_mod k n
  have hr := Nat.mod_lt k hn
  generalize k / n = q at *
  generalize k % n = r at *
  have : k + 1 + n - 1 - r = n * q + n := by omega
  rw [this, Nat.mul_add_div hn, Nat.div_self hn]

theorem asked_next_other (n k j : Nat) (hn : 0 < n) (hj : j < n) (hne : j ≠ k % n) :
    (k + 1 + n - 1 - j) / n = (k + n - 1 - j) / n := by
  have hk := Nat.div_add_mod k n
  have hr := Nat.mod_lt k hn
  generalize k / n = q at *
  generalize k % n = r at *
  by_cases hlt : j < r
  · have e1 : k + 1 + n - 1 - j = n * q + (n + (r - j)) := by omega
    have e2 : k + n - 1 - j = n * q + (n + (r - j - 1)) := by omega
    rw [e1, e2, Nat.mul_add_div hn, Nat.mul_add_div hn]
    have a1 : (n + (r - j)) / n = 1 := by
      rw [Nat.add_div_left _ hn, Nat.div_eq_of_lt (by omega)]
    have a2 : (n + (r - j - 1)) / n = 1 := by
      rw [Nat.add_div_left _ hn, Nat.div_eq_of_lt (by omega)]
    rw [a1, a2]
  · have e1 : k + 1 + n - 1 - j = n * q + (n - (j - r)) := by omega
    have e2 : k + n - 1 - j = n * q + (n - (j - r) - 1) := by omega
    rw [e1, e2, Nat.mul_add_div hn, Nat.mul_add_div hn, Nat.div_eq_of_lt (by omega), Nat.div_eq_of_lt (by omega)]

/-- the members' start-up lists are `inits0`, and after `k` trials member `j` has been asked `(k + n - 1 - j) / n` times -/
def PopI (inits0 : List (List Pos)) (k : Nat) (s : PopSt) : Prop :=
  s.members.length = inits0.length ∧ 0 < inits0.length ∧
  ∀ j m, s.members[j]? = some m → inits0[j]? = some m.initL ∧ m.tr.nthInit = (k + inits0.length - 1 - j) / inits0.length

/-- `L` is the round-robin interleaving of the lists `inits0` -/
def Dealt (inits0 : List (List Pos)) (L : List Pos) : Prop :=
  ∀ t, t < L.length → ∃ l, inits0[t % inits0.length]? = some l ∧ l[t / inits0.length]? = L[t]?

theorem pt_initPos_deal {inits0 : List (List Pos)} {L : List Pos} (hd : Dealt inits0 L) {s s' : PopSt} {p : Pos}
    (hI : PopI inits0 s.tr.nthTrial s) (hlt : s.tr.nthTrial < L.length) (h : ptInitPos s = .ok (p, s')) :
    L[s.tr.nthTrial]? = some p ∧ s'.tr.nthTrial = s.tr.nthTrial ∧ s'.cur = s.tr.nthTrial % inits0.length ∧
    PopI inits0 (s.tr.nthTrial + 1) s' := by
  obtain ⟨hlen, hpos, hmem⟩ := hI
  unfold ptInitPos at h
  simp only [bind, Except.bind, pure, Except.pure] at h
  cases hp : s.pick with
  | error e => rw [hp] at h; simp at h
  | ok a =>
    rw [hp] at h
    simp only at h
    unfold PopSt.pick at hp
    split at hp
    · simp at hp
    · simp only at hp
      split at hp
      · rename_i m hm
        simp only [Except.ok.injEq] at hp
        subst hp
        simp only at h
        cases hl : localInitPos m with
        | error e => rw [hl] at h; simp at h
        | ok c =>
          rw [hl] at h
          simp only [Except.ok.injEq, Prod.mk.injEq] at h
          obtain ⟨rfl, rfl⟩ := h
          obtain ⟨hq, _, htr, hil, _⟩ := localInitPos_spec (show localInitPos m = .ok (c.1, c.2) from hl)
          rw [hlen] at hm
          obtain ⟨hi0, hni⟩ := hmem _ m hm
          obtain ⟨l, hl1, hl2⟩ := hd _ hlt
          rw [hi0] at hl1
          simp only [Option.some.injEq] at hl1
          subst hl1
          rw [asked_self _ _ hpos] at hni
          refine ⟨by rw [← hl2, ← hni]; exact hq, rfl, by simp only; rw [hlen], ?_⟩
          refine ⟨by simp [hlen], hpos, ?_⟩
          intro j m'' hj
          simp only at hj
          rw [hlen, List.getElem?_set] at hj
          split at hj
          · rename_i hjeq
            split at hj
            · simp only [Option.some.injEq] at hj
              subst hj
              subst hjeq
              refine ⟨by rw [hil]; exact hi0, ?_⟩
              rw [htr, asked_next_self _ _ hpos]
              simp only [Tracker.trackNewPos]
              rw [hni]
            · simp at hj
          · rename_i hjne
            obtain ⟨a1, a2⟩ := hmem j m'' hj
            have hjl : j < inits0.length := by rw [← hlen]; exact getElemOpt_lt hj
            exact ⟨a1, by rw [asked_next_other _ _ _ hpos hjl (fun e => hjne e.symm)]; exact a2⟩
      · simp at hp

theorem pt_evalInit_deal {inits0 : List (List Pos)} {k : Nat} {s s' : PopSt} {x : F}
    (hJ : s.tr.nthTrial = k ∧ PopI inits0 (k + 1) s) (h : ptEvalInit s x = .ok s') :
    s'.tr.nthTrial = k + 1 ∧ PopI inits0 s'.tr.nthTrial s' := by
  obtain ⟨hk, hlen, hpos, hmem⟩ := hJ
  unfold ptEvalInit at h
  split at h
  · simp at h
  · rename_i m hm
    simp only [Except.ok.injEq] at h
    subst h
    have hnt : (s.tr.setScoreNew x).nthTrial = s.tr.nthTrial := by
      unfold Tracker.setScoreNew; split <;> rfl
    refine ⟨by simp only; rw [hnt, hk], ?_⟩
    simp only
    rw [hnt, hk]
    refine ⟨by simp [hlen], hpos, ?_⟩
    intro j m'' hj
    rw [List.getElem?_set] at hj
    split at hj
    · rename_i hjeq
      split at hj
      · simp only [Option.some.injEq] at hj
        subst hj
        subst hjeq
        obtain ⟨a1, a2⟩ := hmem _ m hm
        exact ⟨a1, by simp only; rw [evaluateInit_nthInit]; exact a2⟩
      · simp at hj
    · exact hmem j m'' hj

/-- a backend whose start-up methods are the population's, seen through a view of its state -/
structure PopInitLike (b : Backend σ) (view : σ → PopSt) : Prop where
  initPos : ∀ s p s', b.initPos s = .ok (p, s') → ptInitPos (view s) = .ok (p, view s')
  evalInit : ∀ s x s', b.evalInit s x = .ok s' → ptEvalInit (view s) x = .ok (view s')

/-- C10 for a population: the first `n_inits` evaluated positions of a fresh population are the round-robin interleaving of
    its members' start-up lists -/
theorem C10_population_init_lists_evaluated {b : Backend σ} {view : σ → PopSt} (hv : PopInitLike b view)
    {sp : Space} {obj : Obj} {c : Call} {d d' : DState σ} {r : CallResult} {L : List Pos}
    (h : searchCall b sp obj c d = .ok (d', r)) (hn : 0 < c.nIter)
    (hfresh : d.posL = [] ∧ d.nInitTotal = 0 ∧ (view d.bst).tr.nthTrial = 0 ∧ (view d.bst).members ≠ [] ∧
      ∀ m ∈ (view d.bst).members, m.tr.nthInit = 0)
    (hd : Dealt ((view d.bst).members.map (·.initL)) L) (hL : L.length = d.nInits) :
    d'.posL.take (min r.steps L.length) = L.take (min r.steps L.length) := by
  let inits0 := (view d.bst).members.map (·.initL)
  have hb : ListInitJ b L (fun s => (view s).tr.nthTrial) (fun s => PopI inits0 (view s).tr.nthTrial (view s))
      (fun k s => (view s).tr.nthTrial = k ∧ PopI inits0 (k + 1) (view s)) :=
    { initPos := by
        intro s p s' hI hlt hh
        obtain ⟨a, b', _, c'⟩ := pt_initPos_deal hd hI hlt (hv.initPos s p s' hh)
        exact ⟨a, b', c'⟩
      evalInit := by
        intro k s x s' hJ hh
        exact pt_evalInit_deal hJ (hv.evalInit s x s' hh) }
  refine init_list_evaluated_invJ hb h hn ⟨hfresh.1, hfresh.2.1, hfresh.2.2.1, ?_⟩ hL
  have hne : 0 < (view d.bst).members.length := List.length_pos_iff.mpr hfresh.2.2.2.1
  refine ⟨by simp [inits0], by simpa [inits0] using hne, ?_⟩
  intro j m hj
  have hz := hfresh.2.2.2.2 m (List.mem_of_getElem? hj)
  have hjl : j < (view d.bst).members.length := getElemOpt_lt hj
  refine ⟨by simp [inits0, hj], ?_⟩
  rw [hz, hfresh.2.2.1]
  simp only [inits0, List.length_map]
  rw [Nat.div_eq_of_lt (by omega)]

theorem ptBackend_like (cfg : PTCfg) : PopInitLike (ptBackend cfg) id := ⟨fun _ _ _ h => h, fun _ _ _ h => h⟩
theorem psoBackend_like (cfg : LocalCfg) : PopInitLike (psoBackend cfg) id := ⟨fun _ _ _ h => h, fun _ _ _ h => h⟩
theorem spiralBackend_like (cfg : LocalCfg) : PopInitLike (spiralBackend cfg) id := ⟨fun _ _ _ h => h, fun _ _ _ h => h⟩
theorem esBackend_like (cfg : ESCfg) : PopInitLike (esBackend cfg) id := ⟨fun _ _ _ h => h, fun _ _ _ h => h⟩
theorem deBackend_like (cfg : DECfg) : PopInitLike (deBackend cfg) id := ⟨fun _ _ _ h => h, fun _ _ _ h => h⟩
theorem gaBackend_like (cfg : GACfg) : PopInitLike (gaBackend cfg) (·.pop) :=
  { initPos := by
      intro s p s' h
      have h' : (ptInitPos s.pop).map (fun x => (x.1, { s with pop := x.2 })) = .ok (p, s') := h
      cases hp : ptInitPos s.pop with
      | error e => rw [hp] at h'; simp [Except.map] at h'
      | ok a =>
        rw [hp] at h'
        simp only [Except.map, Except.ok.injEq, Prod.mk.injEq] at h'
        obtain ⟨rfl, rfl⟩ := h'
        rfl
    evalInit := by
      intro s x s' h
      have h' : (ptEvalInit s.pop x).map (fun q => { s with pop := q }) = .ok s' := h
      cases hp : ptEvalInit s.pop x with
      | error e => rw [hp] at h'; simp [Except.map] at h'
      | ok a =>
        rw [hp] at h'
        simp only [Except.map, Except.ok.injEq] at h'
        subst h'
        rfl }


theorem C10_pt_init_lists_evaluated {cfg : PTCfg} {sp : Space} {obj : Obj} {c : Call} {d d' : DState PopSt} {r : CallResult} {L : List Pos}
    (h : searchCall (ptBackend cfg) sp obj c d = .ok (d', r)) (hn : 0 < c.nIter)
    (hfresh : d.posL = [] ∧ d.nInitTotal = 0 ∧ d.bst.tr.nthTrial = 0 ∧ d.bst.members ≠ [] ∧ ∀ m ∈ d.bst.members, m.tr.nthInit = 0)
    (hd : Dealt (d.bst.members.map (·.initL)) L) (hL : L.length = d.nInits) :
    d'.posL.take (min r.steps L.length) = L.take (min r.steps L.length) :=
  C10_population_init_lists_evaluated (ptBackend_like cfg) h hn hfresh hd hL

theorem C10_pso_init_lists_evaluated {cfg : LocalCfg} {sp : Space} {obj : Obj} {c : Call} {d d' : DState PopSt} {r : CallResult} {L : List Pos}
    (h : searchCall (psoBackend cfg) sp obj c d = .ok (d', r)) (hn : 0 < c.nIter)
    (hfresh : d.posL = [] ∧ d.nInitTotal = 0 ∧ d.bst.tr.nthTrial = 0 ∧ d.bst.members ≠ [] ∧ ∀ m ∈ d.bst.members, m.tr.nthInit = 0)
    (hd : Dealt (d.bst.members.map (·.initL)) L) (hL : L.length = d.nInits) :
    d'.posL.take (min r.steps L.length) = L.take (min r.steps L.length) :=
  C10_population_init_lists_evaluated (psoBackend_like cfg) h hn hfresh hd hL

theorem C10_spiral_init_lists_evaluated {cfg : LocalCfg} {sp : Space} {obj : Obj} {c : Call} {d d' : DState PopSt} {r : CallResult} {L : List Pos}
    (h : searchCall (spiralBackend cfg) sp obj c d = .ok (d', r)) (hn : 0 < c.nIter)
    (hfresh : d.posL = [] ∧ d.nInitTotal = 0 ∧ d.bst.tr.nthTrial = 0 ∧ d.bst.members ≠ [] ∧ ∀ m ∈ d.bst.members, m.tr.nthInit = 0)
    (hd : Dealt (d.bst.members.map (·.initL)) L) (hL : L.length = d.nInits) :
    d'.posL.take (min r.steps L.length) = L.take (min r.steps L.length) :=
  C10_population_init_lists_evaluated (spiralBackend_like cfg) h hn hfresh hd hL

theorem C10_es_init_lists_evaluated {cfg : ESCfg} {sp : Space} {obj : Obj} {c : Call} {d d' : DState PopSt} {r : CallResult} {L : List Pos}
    (h : searchCall (esBackend cfg) sp obj c d = .ok (d', r)) (hn : 0 < c.nIter)
    (hfresh : d.posL = [] ∧ d.nInitTotal = 0 ∧ d.bst.tr.nthTrial = 0 ∧ d.bst.members ≠ [] ∧ ∀ m ∈ d.bst.members, m.tr.nthInit = 0)
    (hd : Dealt (d.bst.members.map (·.initL)) L) (hL : L.length = d.nInits) :
    d'.posL.take (min r.steps L.length) = L.take (min r.steps L.length) :=
  C10_population_init_lists_evaluated (esBackend_like cfg) h hn hfresh hd hL

theorem C10_de_init_lists_evaluated {cfg : DECfg} {sp : Space} {obj : Obj} {c : Call} {d d' : DState PopSt} {r : CallResult} {L : List Pos}
    (h : searchCall (deBackend cfg) sp obj c d = .ok (d', r)) (hn : 0 < c.nIter)
    (hfresh : d.posL = [] ∧ d.nInitTotal = 0 ∧ d.bst.tr.nthTrial = 0 ∧ d.bst.members ≠ [] ∧ ∀ m ∈ d.bst.members, m.tr.nthInit = 0)
    (hd : Dealt (d.bst.members.map (·.initL)) L) (hL : L.length = d.nInits) :
    d'.posL.take (min r.steps L.length) = L.take (min r.steps L.length) :=
  C10_population_init_lists_evaluated (deBackend_like cfg) h hn hfresh hd hL

theorem C10_ga_init_lists_evaluated {cfg : GACfg} {sp : Space} {obj : Obj} {c : Call} {d d' : DState GASt} {r : CallResult} {L : List Pos}
    (h : searchCall (gaBackend cfg) sp obj c d = .ok (d', r)) (hn : 0 < c.nIter)
    (hfresh : d.posL = [] ∧ d.nInitTotal = 0 ∧ d.bst.pop.tr.nthTrial = 0 ∧ d.bst.pop.members ≠ [] ∧ ∀ m ∈ d.bst.pop.members, m.tr.nthInit = 0)
    (hd : Dealt (d.bst.pop.members.map (·.initL)) L) (hL : L.length = d.nInits) :
    d'.posL.take (min r.steps L.length) = L.take (min r.steps L.length) :=
  C10_population_init_lists_evaluated (gaBackend_like cfg) h hn hfresh hd hL

/-- non-vacuity of `Dealt`: two members with lists [a, c] and [b] deal [a, b, c] -/
example : Dealt [[[0], [2]], [[1]]] [[0], [1], [2]] := by
  intro t ht
  have : t = 0 ∨ t = 1 ∨ t = 2 := by simp at ht; omega
  rcases this with rfl | rfl | rfl <;> simp

end GFO.InitRuns
