/-
  C17 through the whole optimizer: the complete model of the surrogate-model optimizers that share
  `SMBO._propose_location` (BayesianOptimizer, TreeStructuredParzenEstimators, ForestOptimizer; GFO.Model.SmboBackend) run by
  the real driver model, for every configuration, objective, call, prior state and tape:

    C17_smbo_training_set     after any call the training lists are: what they were before it (in particular the valid
                              warm-start rows) ++ the finite-scored evaluations of the call, each position with its own
                              score, in order
    C17_smbo_proposal_argmax  a model-based proposal is a (sub)sampled candidate whose acquisition value dominates every
                              other one (nan-free acquisition vector)
    C17_smbo_no_repeat        with `replacement=False` an evaluated position leaves the candidate set and the set only shrinks
-/
import GFO.Model.SmboBackend
import GFO.Props.C17
import GFO.Props.SimplexRuns
namespace GFO.SmboRuns
open GFO GFO.C17 GFO.SmboState

/-- the invariant: positions and scores aligned, training lists aligned and equal to their start ++ the finite pairs -/
structure Inv (X0 : List Pos) (Y0 : List F) (pos0 : List Pos) (sc0 : List F) (d : DState SmboSt) : Prop where
  len : d.posL.length = d.scoreL.length
  xy : d.bst.sm.X.length = d.bst.sm.Y.length
  pre : ∃ ps ss, d.posL = pos0 ++ ps ∧ d.scoreL = sc0 ++ ss ∧ ps.length = ss.length ∧
    d.bst.sm.X.zip d.bst.sm.Y = X0.zip Y0 ++ pairsOf (ps.zip ss)

theorem trackXY (sm : SmboState) (p : Pos) (score : F) (h : sm.X.length = sm.Y.length) :
    ((sm.trackX p).trackY score).X.zip ((sm.trackX p).trackY score).Y = sm.X.zip sm.Y ++ pairsOf [(p, score)] ∧
    ((sm.trackX p).trackY score).X.length = ((sm.trackX p).trackY score).Y.length := by
  unfold trackX trackY pairsOf
  by_cases hf : score.isFinite = true <;> simp [hf, List.zip_append h, h]

theorem trackXY_remove (sm : SmboState) (p q : Pos) (score : F) (h : sm.X.length = sm.Y.length) :
    (((sm.trackX p).removePos q).trackY score).X.zip (((sm.trackX p).removePos q).trackY score).Y = sm.X.zip sm.Y ++ pairsOf [(p, score)] ∧
    (((sm.trackX p).removePos q).trackY score).X.length = (((sm.trackX p).removePos q).trackY score).Y.length := by
  unfold trackX trackY removePos pairsOf
  by_cases hf : score.isFinite = true <;> simp [hf, List.zip_append h, h]

theorem pairsOf_append (a b : List (Pos × F)) : pairsOf (a ++ b) = pairsOf a ++ pairsOf b := by
  unfold pairsOf; simp

/-- one driver step: the training lists gain exactly the evaluated pair when its score is finite -/
theorem step_inv {cfg : SmboCfg} {sp : Space} {obj : Obj} {c : Call} {X0 : List Pos} {Y0 : List F} {pos0 : List Pos} {sc0 : List F}
    (i : Nat) (d d1 : DState SmboSt) (cs cs1 : CState) (p : Pos) (v : Value) (e : Eval)
    (hP : Inv X0 Y0 pos0 sc0 d) (sf : StepFacts sp obj c i d d1 cs cs1 p v e)
    (hb : BStep (smboBackend cfg) (i < cs.nInitsNorm) d.bst d1.bst p e.res.score) :
    Inv X0 Y0 pos0 sc0 d1 := by
  have hlen : d1.posL.length = d1.scoreL.length := by rw [sf.posL, sf.scoreL]; simp [hP.len]
  obtain ⟨ps, ss, hps, hss, hl, hz⟩ := hP.pre
  have hsm : d1.bst.sm.X.zip d1.bst.sm.Y = d.bst.sm.X.zip d.bst.sm.Y ++ pairsOf [(p, e.res.score)] ∧
      d1.bst.sm.X.length = d1.bst.sm.Y.length := by
    rcases hb with ⟨_, s1, h1, h2⟩ | ⟨_, s0, s1, h0, h1, h2⟩
    · have h1' : smboInitPos d.bst = .ok (p, s1) := h1
      unfold smboInitPos at h1'
      split at h1'
      · simp only [Except.ok.injEq, Prod.mk.injEq] at h1'
        obtain ⟨rfl, rfl⟩ := h1'
        simp only [smboBackend, Except.ok.injEq] at h2
        rw [← h2]
        exact trackXY d.bst.sm _ e.res.score hP.xy
      · simp at h1'
    · have hs0 : s0.sm.X = d.bst.sm.X ∧ s0.sm.Y = d.bst.sm.Y := by
        rcases h0 with h0 | h0
        · subst h0; exact ⟨rfl, rfl⟩
        · have h0' : smboFinishInit d.bst = .ok s0 := h0
          unfold smboFinishInit at h0'
          cases ha : allPossiblePos d.bst.tape with
          | error e' => rw [ha] at h0'; simp at h0'
          | ok a =>
            rw [ha] at h0'
            simp only [Except.ok.injEq] at h0'
            subst h0'
            exact ⟨rfl, rfl⟩
      have h1' : smboIterate cfg s0 = .ok (p, s1) := h1
      unfold smboIterate at h1'
      cases hp : smboPropose cfg s0 with
      | error e' => rw [hp] at h1'; simp at h1'
      | ok a =>
        rw [hp] at h1'
        simp only [Except.ok.injEq, Prod.mk.injEq] at h1'
        obtain ⟨rfl, rfl⟩ := h1'
        have h2 := smboEvaluateE_ok (show smboEvaluateE cfg _ e.res.score = .ok d1.bst from h2)
        rw [← h2]
        have hxy0 : s0.sm.X.length = s0.sm.Y.length := by rw [hs0.1, hs0.2]; exact hP.xy
        unfold smboEvaluate
        simp only
        rw [← hs0.1, ← hs0.2]
        split
        · exact trackXY s0.sm _ e.res.score hxy0
        · split
          · exact trackXY_remove s0.sm _ _ e.res.score hxy0
          · exact trackXY s0.sm _ e.res.score hxy0
  refine { len := hlen, xy := hsm.2, pre := ⟨ps ++ [p], ss ++ [e.res.score], ?_, ?_, by simp [hl], ?_⟩ }
  · rw [sf.posL, hps]; simp
  · rw [sf.scoreL, hss]; simp
  · rw [hsm.1, hz, List.zip_append hl, pairsOf_append]
    simp

/-- C17, the training set: `X_sample` / `Y_sample` after a call = before it ++ the finite-scored evaluations of the call,
    each position paired with its own score, in order -/
theorem C17_smbo_training_set {cfg : SmboCfg} {sp : Space} {obj : Obj} {c : Call} {d d' : DState SmboSt} {r : CallResult}
    (hlen : d.posL.length = d.scoreL.length) (hxy : d.bst.sm.X.length = d.bst.sm.Y.length) (hn : 0 < c.nIter)
    (h : searchCall (smboBackend cfg) sp obj c d = .ok (d', r)) :
    ∃ ps ss, d'.posL = d.posL ++ ps ∧ d'.scoreL = d.scoreL ++ ss ∧ ps.length = ss.length ∧
      d'.bst.sm.X.zip d'.bst.sm.Y = d.bst.sm.X.zip d.bst.sm.Y ++ pairsOf (ps.zip ss) ∧
      d'.bst.sm.X.length = d'.bst.sm.Y.length := by
  have h0 : Inv d.bst.sm.X d.bst.sm.Y d.posL d.scoreL d :=
    { len := hlen, xy := hxy, pre := ⟨[], [], by simp, by simp, rfl, by simp [pairsOf]⟩ }
  obtain ⟨cs, d1, cs1, tr, _, hfin, _, hP1, _⟩ :=
    searchCall_inv (P := fun dd _ => Inv d.bst.sm.X d.bst.sm.Y d.posL d.scoreL dd) (Q := fun _ => True)
      (fun i dd d1 cs cs1 p v e hp sf hb => ⟨step_inv i dd d1 cs cs1 p v e hp sf hb, trivial⟩) h hn (fun _ _ => h0)
  obtain ⟨_, hposL, hscoreL, _, _, _, _, _, _, _, hbst, _⟩ := finishSearch_ok hfin
  obtain ⟨ps, ss, a, b, c', e⟩ := hP1.pre
  exact ⟨ps, ss, by rw [hposL]; exact a, by rw [hscoreL]; exact b, c', by rw [hbst]; exact e, by rw [hbst]; exact hP1.xy⟩

/-! ### the proposal dominates -/

theorem F_ge_trans {a b c : F} (ha : a.isNan = false) (hb : b.isNan = false) (hc : c.isNan = false)
    (h1 : F.ge a b = true) (h2 : F.ge b c = true) : F.ge a c = true := by
  cases a <;> cases b <;> cases c <;> simp_all [F.ge, F.le, F.isNan] <;> grind

theorem F_ge_refl {a : F} (ha : a.isNan = false) : F.ge a a = true := by
  cases a <;> simp_all [F.ge, F.le, F.isNan]

theorem adjacentDesc_head (l : List F) (hn : ∀ x ∈ l, x.isNan = false) (h : adjacentDesc l = true) :
    ∀ a rest, l = a :: rest → ∀ x ∈ rest, F.ge a x = true := by
  induction l with
  | nil => intro a rest he; simp at he
  | cons y ys ih =>
    intro a rest he x hx
    simp only [List.cons.injEq] at he
    obtain ⟨rfl, rfl⟩ := he
    cases ys with
    | nil => simp at hx
    | cons z zs =>
      simp only [adjacentDesc, Bool.and_eq_true, Bool.or_eq_true, Bool.not_eq_true'] at h
      have hy := hn y (by simp)
      have hz := hn z (by simp)
      have hyz : F.ge y z = true := by
        rcases h.1 with h1 | h1
        · rw [hy] at h1; simp at h1
        · exact h1.2
      rcases List.mem_cons.mp hx with rfl | hx'
      · exact hyz
      · have := ih (fun w hw => hn w (by simp [hw])) h.2 z zs rfl x hx'
        exact F_ge_trans hy hz (hn x (by simp [hx'])) hyz this

/-- the first index of a descending arrangement of a nan-free vector dominates every index -/
theorem sortedDesc_head_max (acq : List F) (perm : List Nat) (i0 : Nat) (hs : sortedDesc acq perm = true)
    (hn : ∀ x ∈ acq, x.isNan = false) (hh : perm.head? = some i0) :
    ∀ j, j < acq.length → F.ge (acq.getD i0 .nan) (acq.getD j .nan) = true := by
  unfold sortedDesc at hs
  simp only [Bool.and_eq_true, beq_iff_eq, List.all_eq_true, List.mem_range, List.contains_iff_mem] at hs
  obtain ⟨⟨hlen, hall⟩, hadj⟩ := hs
  intro j hj
  have hjm : j ∈ perm := by simpa using hall j hj
  cases hperm : perm with
  | nil => rw [hperm] at hh; simp at hh
  | cons a rest =>
    rw [hperm] at hh hjm hadj hall
    simp only [List.head?_cons, Option.some.injEq] at hh
    subst hh
    have hidx : ∀ k ∈ (a :: rest), k < acq.length := by
      -- a permutation of the indices: as long as `acq` and containing every index, hence duplicate-free and in range
      intro k hk
      by_contra hc
      -- pigeonhole: `perm` has length `acq.length` and contains all `acq.length` indices below it
      have hsub : List.range acq.length ⊆ (a :: rest) := by
        intro m hm; simpa using hall m (by simpa using hm)
      have hnd : (List.range acq.length).Nodup := List.nodup_range
      have hle := List.Nodup.length_le_of_subset (l₂ := (a :: rest).erase k) hnd (by
        intro m hm
        have hm' := hsub hm
        have hne : m ≠ k := by
          intro e; subst e; simp at hm; exact hc hm
        exact (List.mem_erase_of_ne hne).mpr hm')
      rw [List.length_erase_of_mem hk, List.length_range] at hle
      have : (a :: rest).length = acq.length := by rw [← hperm]; exact hlen
      omega
    have hnm : ∀ x ∈ (a :: rest).map (fun i => acq.getD i F.nan), x.isNan = false := by
      intro x hx
      obtain ⟨k, hk, rfl⟩ := List.mem_map.mp hx
      have hk' := hidx k hk
      have : acq.getD k F.nan = acq[k] := by simp [List.getD, List.getElem?_eq_getElem hk']
      rw [this]; exact hn _ (List.getElem_mem hk')
    have hhead := adjacentDesc_head _ hnm hadj (acq.getD a F.nan) (rest.map (fun i => acq.getD i F.nan)) (by simp)
    rcases List.mem_cons.mp hjm with rfl | hjr
    · have hnn : (acq.getD j F.nan).isNan = false := hnm _ (by simp)
      exact F_ge_refl hnn
    · exact hhead _ (List.mem_map.mpr ⟨j, hjr, rfl⟩)

/-- C17, the proposal: a model-based proposal is one of the (sub)sampled candidates and its acquisition value dominates -/
theorem C17_smbo_proposal_argmax {pc : List Pos} {tape rest : Tape} {p : Pos} (h : pickByAcq pc tape = .ok (p, rest)) :
    ∃ acq perm i0, tape = Draw.vec acq :: Draw.sorted perm :: rest ∧ acq.length = pc.length ∧ pc[i0]? = some p ∧
      ((∀ x ∈ acq, x.isNan = false) → ∀ j, j < acq.length → F.ge (acq.getD i0 .nan) (acq.getD j .nan) = true) := by
  unfold pickByAcq at h
  split at h
  · rename_i acq perm rest0
    split at h
    · simp at h
    · rename_i hl
      split at h
      · simp at h
      · rename_i hs
        cases hh : perm.head? with
        | none => rw [hh] at h; simp at h
        | some i0 =>
          rw [hh] at h
          simp only at h
          cases hp : pc[i0]? with
          | none => rw [hp] at h; simp at h
          | some q =>
            rw [hp] at h
            simp only [Except.ok.injEq, Prod.mk.injEq] at h
            obtain ⟨rfl, rfl⟩ := h
            refine ⟨acq, perm, i0, rfl, by simpa using hl, hp, ?_⟩
            intro hn j hj
            exact sortedDesc_head_max acq perm i0 (by simpa using hs) hn hh j hj
  · simp at h
  · simp at h
  · simp at h

/-- C17, no repetition: with `replacement=False` the evaluated position is no candidate afterwards; the set only shrinks -/
theorem C17_smbo_no_repeat (cfg : SmboCfg) (s : SmboSt) (score : F) (p : Pos) (hr : cfg.replacement = false)
    (hp : s.tr.posNew = some p) :
    p ∉ (smboEvaluate cfg s score).sm.cands ∧ ∀ q ∈ (smboEvaluate cfg s score).sm.cands, q ∈ s.sm.cands := by
  have hpn : (smboEvalBody (s.tr.setScoreNew score) score).posNew = some p := by
    unfold smboEvalBody Tracker.evaluateCurrent2best Tracker.evaluateNew2current Tracker.setScoreNew
    split <;> split <;> split <;> simp [hp]
  unfold smboEvaluate
  simp only [hr, Bool.false_eq_true, if_false, hpn]
  unfold trackY removePos
  by_cases hf : score.isFinite = true <;> simp [hf] <;> (intro q hq _; exact hq)

end GFO.SmboRuns
