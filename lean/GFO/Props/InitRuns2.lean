/-
  C10 (b) for the remaining single-tracker complete models: a FRESH BayesianOptimizer / TreeStructuredParzenEstimators /
  ForestOptimizer / LipschitzOptimizer (GFO.Model.SmboBackend) or DirectAlgorithm (GFO.Model.Direct) evaluates its list of
  start-up positions, in order, in the first `n_inits` steps of a call - whatever the objective, the tape, the arguments and
  the stopping criteria.
-/
import GFO.Props.InitRuns
import GFO.Model.Direct
namespace GFO.InitRuns
open GFO

theorem smboEvalBody_nthInit (t : Tracker) (s : F) : (smboEvalBody (t.setScoreNew s) s).nthInit = t.nthInit := by
  unfold smboEvalBody Tracker.evaluateCurrent2best Tracker.evaluateNew2current Tracker.setScoreNew
  split <;> split <;> split <;> rfl

/-- the surrogate-model optimizers -/
theorem C10_smbo_init_list_evaluated {cfg : SmboCfg} {sp : Space} {obj : Obj} {c : Call} {d d' : DState SmboSt} {r : CallResult}
    (h : searchCall (smboBackend cfg) sp obj c d = .ok (d', r)) (hn : 0 < c.nIter)
    (hfresh : d.posL = [] ∧ d.nInitTotal = 0 ∧ d.bst.tr.nthInit = 0) (hL : d.bst.initL.length = d.nInits) :
    d'.posL.take (min r.steps d.bst.initL.length) = d.bst.initL.take (min r.steps d.bst.initL.length) := by
  have hb : ListInitI (smboBackend cfg) d.bst.initL (fun s => s.tr.nthInit) (fun s => s.initL = d.bst.initL) :=
    { initPos := by
        intro s p s' hI h
        have h' : smboInitPos s = .ok (p, s') := h
        unfold smboInitPos at h'
        split at h'
        · rename_i q hq
          simp only [Except.ok.injEq, Prod.mk.injEq] at h'
          obtain ⟨rfl, rfl⟩ := h'
          exact ⟨by rw [← hI]; exact hq, rfl, hI⟩
        · simp at h'
      evalInit := by
        intro s x s' hI h
        simp only [smboBackend, Except.ok.injEq] at h
        subst h
        exact ⟨smboEvalBody_nthInit _ _, hI⟩ }
  exact init_list_evaluated_inv hb h hn ⟨hfresh.1, hfresh.2.1, hfresh.2.2, rfl⟩ hL

/-- the DIRECT algorithm -/
theorem C10_direct_init_list_evaluated {cfg : DirCfg} {sp : Space} {obj : Obj} {c : Call} {d d' : DState DirSt} {r : CallResult}
    (h : searchCall (dirBackend cfg) sp obj c d = .ok (d', r)) (hn : 0 < c.nIter)
    (hfresh : d.posL = [] ∧ d.nInitTotal = 0 ∧ d.bst.tr.nthInit = 0) (hL : d.bst.initL.length = d.nInits) :
    d'.posL.take (min r.steps d.bst.initL.length) = d.bst.initL.take (min r.steps d.bst.initL.length) := by
  have hb : ListInitI (dirBackend cfg) d.bst.initL (fun s => s.tr.nthInit) (fun s => s.initL = d.bst.initL) :=
    { initPos := by
        intro s p s' hI h
        have h' : dirInitPos s = .ok (p, s') := h
        unfold dirInitPos at h'
        split at h'
        · rename_i q hq
          simp only [Except.ok.injEq, Prod.mk.injEq] at h'
          obtain ⟨rfl, rfl⟩ := h'
          exact ⟨by rw [← hI]; exact hq, rfl, hI⟩
        · simp at h'
      evalInit := by
        intro s x s' hI h
        simp only [dirBackend, Except.ok.injEq] at h
        subst h
        exact ⟨smboEvalBody_nthInit _ _, hI⟩ }
  exact init_list_evaluated_inv hb h hn ⟨hfresh.1, hfresh.2.1, hfresh.2.2, rfl⟩ hL

end GFO.InitRuns
