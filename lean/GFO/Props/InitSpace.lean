/-
  C01 for the start-up positions, and the hypothesis `hi` of every whole-run theorem discharged from the Initializer model:

    initializer_inSpace     everything `Initializer.set_pos` (+ `_fill_rest_random`) returns is a position of the space -
                            random positions and vertices as far as the generators deliver positions of the space (`DrawsIn`),
                            the grid points of `_init_grid_search` and the warm-start positions by computation
    initializer_good        … and feasible (with C02.initializer_feasible): exactly the hypothesis
                            `∀ q ∈ initL0, InSpace sp q ∧ f q = true` of LocalRuns / GridRuns / PatternRuns / PowellRuns /
                            SimplexRuns / SmboPosRuns / DirectRuns
    population_inits_good   the members' lists dealt by `split` (+ the random padding) satisfy the hypothesis of PopRuns / EvoRuns
    C01_C02_local_fresh     an instance spelled out: a fresh optimizer of the seven local classes, initialised by the
                            Initializer model, evaluates only feasible positions of the space
-/
import GFO.Props.C02
import GFO.Props.LocalRuns
import GFO.Props.EvoRuns
namespace GFO.InitSpace
open GFO GFO.C02 GFO.LocalRuns

/-- both generator streams deliver only positions with property `Q` -/
def DrawsIn (Q : Pos → Prop) (d : Draws) : Prop := (∀ p ∈ d.rnd, Q p) ∧ (∀ p ∈ d.vtx, Q p)

theorem nextRnd_in {Q : Pos → Prop} {d d' : Draws} {p : Pos} (hd : DrawsIn Q d) (h : nextRnd d = .ok (p, d')) :
    Q p ∧ DrawsIn Q d' := by
  unfold nextRnd at h
  cases hr : d.rnd with
  | nil => simp [hr] at h
  | cons q qs =>
    simp only [hr, Except.ok.injEq, Prod.mk.injEq] at h
    obtain ⟨rfl, rfl⟩ := h
    exact ⟨hd.1 q (by rw [hr]; simp), fun x hx => hd.1 x (by rw [hr]; simp [hx]), hd.2⟩

theorem nextVtx_in {Q : Pos → Prop} {d d' : Draws} {p : Pos} (hd : DrawsIn Q d) (h : nextVtx d = .ok (p, d')) :
    Q p ∧ DrawsIn Q d' := by
  unfold nextVtx at h
  cases hr : d.vtx with
  | nil => simp [hr] at h
  | cons q qs =>
    simp only [hr, Except.ok.injEq, Prod.mk.injEq] at h
    obtain ⟨rfl, rfl⟩ := h
    exact ⟨hd.2 q (by rw [hr]; simp), hd.1, fun x hx => hd.2 x (by rw [hr]; simp [hx])⟩

theorem drawFeasible_in {Q : Pos → Prop} (feas : Pos → Bool) (fuel : Nat) {d d' : Draws} {p : Pos} (hd : DrawsIn Q d)
    (h : drawFeasible feas fuel d = .ok (p, d')) : Q p ∧ DrawsIn Q d' := by
  induction fuel generalizing d with
  | zero => simp [drawFeasible] at h
  | succ fuel ih =>
    simp only [drawFeasible] at h
    cases hn : nextRnd d with
    | error e => rw [hn] at h; simp at h
    | ok x =>
      obtain ⟨q, d1⟩ := x
      rw [hn] at h
      simp only at h
      obtain ⟨hq, hd1⟩ := nextRnd_in hd hn
      split at h
      · simp only [Except.ok.injEq, Prod.mk.injEq] at h
        obtain ⟨rfl, rfl⟩ := h
        exact ⟨hq, hd1⟩
      · exact ih hd1 h

theorem initRandom_in {Q : Pos → Prop} (feas : Pos → Bool) (fuel n : Nat) {d d' : Draws} {ps : List Pos} (hd : DrawsIn Q d)
    (h : initRandom feas fuel n d = .ok (ps, d')) : (∀ p ∈ ps, Q p) ∧ DrawsIn Q d' := by
  induction n generalizing d ps with
  | zero =>
    simp only [initRandom, Except.ok.injEq, Prod.mk.injEq] at h
    obtain ⟨rfl, rfl⟩ := h
    exact ⟨by intro p hp; simp at hp, hd⟩
  | succ n ih =>
    simp only [initRandom] at h
    cases h1 : drawFeasible feas fuel d with
    | error e => simp [h1] at h
    | ok x =>
      obtain ⟨p, d1⟩ := x
      simp only [h1] at h
      obtain ⟨hp, hd1⟩ := drawFeasible_in feas fuel hd h1
      cases h2 : initRandom feas fuel n d1 with
      | error e => simp [h2] at h
      | ok y =>
        obtain ⟨qs, d2⟩ := y
        simp only [h2, Except.ok.injEq, Prod.mk.injEq] at h
        obtain ⟨rfl, rfl⟩ := h
        obtain ⟨hq, hd2⟩ := ih hd1 h2
        refine ⟨?_, hd2⟩
        intro q hqm
        rcases List.mem_cons.mp hqm with rfl | hqm
        · exact hp
        · exact hq q hqm

theorem pickVertex_in {Q : Pos → Prop} (have_ : List Pos) (tries : Nat) {d d' : Draws} {p : Pos} (hd : DrawsIn Q d)
    (h : pickVertex have_ tries d = .ok (p, d')) : Q p ∧ DrawsIn Q d' := by
  induction tries generalizing d with
  | zero => simp only [pickVertex] at h; exact nextRnd_in hd h
  | succ t ih =>
    simp only [pickVertex] at h
    cases hn : nextVtx d with
    | error e => rw [hn] at h; simp at h
    | ok x =>
      obtain ⟨v, d1⟩ := x
      rw [hn] at h
      simp only at h
      obtain ⟨hv, hd1⟩ := nextVtx_in hd hn
      split at h
      · exact ih hd1 h
      · simp only [Except.ok.injEq, Prod.mk.injEq] at h
        obtain ⟨rfl, rfl⟩ := h
        exact ⟨hv, hd1⟩

theorem initVertices_in {Q : Pos → Prop} (feas : Pos → Bool) (n : Nat) (acc : List Pos) {d d' : Draws} {ps : List Pos}
    (hd : DrawsIn Q d) (hacc : ∀ p ∈ acc, Q p) (h : initVertices feas n acc d = .ok (ps, d')) :
    (∀ p ∈ ps, Q p) ∧ DrawsIn Q d' := by
  induction n generalizing acc d with
  | zero =>
    simp only [initVertices, Except.ok.injEq, Prod.mk.injEq] at h
    obtain ⟨rfl, rfl⟩ := h
    exact ⟨fun p hp => hacc p (List.mem_filter.mp hp).1, hd⟩
  | succ n ih =>
    simp only [initVertices] at h
    cases h1 : pickVertex acc 100 d with
    | error e => simp [h1] at h
    | ok x =>
      obtain ⟨v, d1⟩ := x
      simp only [h1] at h
      obtain ⟨hv, hd1⟩ := pickVertex_in acc 100 hd h1
      exact ih (acc ++ [v]) hd1 (by
        intro p hp
        rcases List.mem_append.mp hp with hp | hp
        · exact hacc p hp
        · simp at hp; subst hp; exact hv) h

/-! ### the grid of `_init_grid_search` -/

theorem inBox_ofNat : ∀ (sizes : List Nat) (t : List Nat), List.Forall₂ (fun x n => x < n) t sizes →
    inBox sizes (t.map Int.ofNat) = true
  | _, _, .nil => rfl
  | _, _, .cons h tl => by
    simp only [List.map_cons, inBox, Bool.and_eq_true, decide_eq_true_eq]
    exact ⟨⟨Int.natCast_nonneg _, by exact Int.ofNat_lt.mpr h⟩, inBox_ofNat _ _ tl⟩

/-- the partial assignments built by the fold only bind an axis to one of its coordinates -/
theorem mesh_fold_inv (coords : List (List Nat)) : ∀ (axes : List Nat) (acc : List (List (Nat × Nat))),
    (∀ a ∈ acc, ∀ e ∈ a, e.2 ∈ coords.getD e.1 []) →
    ∀ a ∈ axes.foldl (fun acc ax => acc.flatMap (fun a => (coords.getD ax []).map (fun v => a ++ [(ax, v)]))) acc,
      ∀ e ∈ a, e.2 ∈ coords.getD e.1 [] := by
  intro axes
  induction axes with
  | nil => intro acc h; simpa using h
  | cons ax axs ih =>
    intro acc h
    simp only [List.foldl_cons]
    apply ih
    intro a ha e he
    simp only [List.mem_flatMap, List.mem_map] at ha
    obtain ⟨a0, ha0, v, hv, rfl⟩ := ha
    rcases List.mem_append.mp he with he | he
    · exact h a0 ha0 e he
    · simp at he; subst he; exact hv

/-- every tuple of the mesh has one entry per dimension, each a coordinate of its dimension or 0 -/
theorem meshProduct_spec (coords : List (List Nat)) : ∀ t ∈ meshProduct coords,
    t.length = coords.length ∧ ∀ k x, t[k]? = some x → x = 0 ∨ x ∈ coords.getD k [] := by
  intro t ht
  unfold meshProduct at ht
  simp only [List.mem_map] at ht
  obtain ⟨a, ha, rfl⟩ := ht
  have hinv := mesh_fold_inv coords (meshAxes coords.length) [[]] (by intro a ha e he; simp at ha; subst ha; simp at he) a ha
  refine ⟨by simp, ?_⟩
  intro k x hx
  simp only [List.getElem?_map] at hx
  cases hk : (List.range coords.length)[k]? with
  | none => rw [hk] at hx; simp at hx
  | some k' =>
    rw [hk] at hx
    simp only [Option.map_some, Option.some.injEq] at hx
    have hk' : k' = k := by
      have hlt := getElemOpt_lt' hk
      rw [List.getElem?_eq_getElem hlt] at hk
      simpa using hk.symm
    subst hk'
    split at hx
    · rename_i e he
      subst hx
      right
      have hmem := List.mem_of_find?_eq_some he
      have hkey := List.find?_some he
      simp only [beq_iff_eq] at hkey
      have := hinv e hmem
      rw [hkey] at this
      exact this
    · left; exact hx.symm
where
  getElemOpt_lt' {α : Type} {l : List α} {k : Nat} {a : α} (h : l[k]? = some a) : k < l.length := by
    by_contra hc
    rw [List.getElem?_eq_none (by omega)] at h
    simp at h

theorem initGridDim_le (dim p : Nat) : ∀ x ∈ initGridDim dim p, x ≤ dim := by
  intro x hx
  unfold initGridDim at hx
  simp only [List.mem_map, List.mem_range] at hx
  obtain ⟨n, hn, rfl⟩ := hx
  calc (n + 1) * (dim / (p + 1)) ≤ (p + 1) * (dim / (p + 1)) := Nat.mul_le_mul_right _ (by omega)
    _ ≤ dim := Nat.mul_div_le dim (p + 1)

theorem forall2_of_getElem {t sizes : List Nat} (hlen : t.length = sizes.length)
    (h : ∀ (k x n : Nat), t[k]? = some x → sizes[k]? = some n → x < n) : List.Forall₂ (fun x n => x < n) t sizes := by
  induction t generalizing sizes with
  | nil => cases sizes with
    | nil => exact .nil
    | cons _ _ => simp at hlen
  | cons x xs ih =>
    cases sizes with
    | nil => simp at hlen
    | cons n ns =>
      refine .cons (h 0 x n (by simp) (by simp)) (ih (by simpa using hlen) ?_)
      intro k x' n' hx hn
      exact h (k + 1) x' n' (by simpa using hx) (by simpa using hn)

theorem initGrid_inSpace {sp : Space} (feas : Pos → Bool) (hpos : ∀ s ∈ sp.sizes, 0 < s) (n p : Nat) :
    ∀ q ∈ initGrid feas sp.sizes n p, InSpace sp q := by
  intro q hq
  unfold initGrid at hq
  split at hq
  · simp at hq
  · split at hq
    · simp at hq
    · obtain ⟨hq1, _⟩ := List.mem_filter.mp hq
      obtain ⟨t, ht, rfl⟩ := List.mem_map.mp hq1
      obtain ⟨hlen, hco⟩ := meshProduct_spec _ t ht
      unfold InSpace
      apply inBox_ofNat
      apply forall2_of_getElem (by simpa using hlen)
      intro k x s hx hs
      have hspos : 0 < s := hpos s (List.mem_of_getElem? hs)
      rcases hco k x hx with rfl | hmem
      · exact hspos
      · have : (sp.sizes.map (fun s => initGridDim (s - 1) p)).getD k [] = initGridDim (s - 1) p := by
          simp [List.getD, List.getElem?_map, hs]
        rw [this] at hmem
        have := initGridDim_le _ _ x hmem
        omega

/-! ### warm-start positions -/

theorem argminScan_lt (v : Rat) : ∀ (xs : List Rat) (st : Rat × Nat) (i : Nat), st.2 < i + xs.length →
    (argminScan v st i xs).2 < i + xs.length
  | [], st, i, h => by simpa [argminScan] using h
  | x :: xs, (b, bi), i, h => by
    unfold argminScan
    split
    · have := argminScan_lt v xs (absQ (v - x), i) (i + 1) (by simp; omega)
      simp only [List.length_cons]; omega
    · have := argminScan_lt v xs (b, bi) (i + 1) (by simp only [List.length_cons] at h; simp; omega)
      simp only [List.length_cons]; omega

theorem argminAbs_lt (v : Rat) (d : List Rat) (hd : 0 < d.length) : argminAbs v d < d.length := by
  cases d with
  | nil => simp at hd
  | cons x xs =>
    unfold argminAbs
    have := argminScan_lt v xs (absQ (v - x), 0) 1 (by simp)
    simp only [List.length_cons]; omega

theorem value2position_lt : ∀ (dims : List (List Rat)) (v : Value) (k : List Nat), (∀ d ∈ dims, 0 < d.length) →
    value2position dims v = .ok k → List.Forall₂ (fun x n => x < n) k (dims.map List.length)
  | [], _, k, _, h => by
    simp only [value2position, Except.ok.injEq] at h; subst h; exact .nil
  | _ :: _, [], k, _, h => by simp [value2position] at h
  | d :: ds, v :: vs, k, hd, h => by
    simp only [value2position, bind, Except.bind, pure, Except.pure] at h
    cases hr : value2position ds vs with
    | error e => rw [hr] at h; simp at h
    | ok ps =>
      rw [hr] at h
      simp only [Except.ok.injEq] at h
      subst h
      exact .cons (argminAbs_lt v d (hd d (by simp))) (value2position_lt ds vs ps (fun d' hd' => hd d' (by simp [hd'])) hr)

theorem warmPos_inSpace {sp : Space} (hsp : ∀ d ∈ sp.dims, 0 < d.length) {w : Para} {p : Pos} (h : warmPos sp w = .ok p) :
    InSpace sp p := by
  unfold warmPos at h
  simp only [bind, Except.bind, pure, Except.pure] at h
  cases h1 : para2value sp.names w with
  | error e => rw [h1] at h; simp at h
  | ok v =>
    rw [h1] at h
    simp only at h
    cases h2 : value2position sp.dims v with
    | error e => rw [h2] at h; simp at h
    | ok k =>
      rw [h2] at h
      simp only [Except.ok.injEq] at h
      subst h
      exact inBox_ofNat _ _ (value2position_lt sp.dims v k hsp h2)

theorem initWarm_inSpace {sp : Space} (feas : Pos → Bool) (hsp : ∀ d ∈ sp.dims, 0 < d.length) {ws : List Para} {ps : List Pos}
    (h : initWarm feas sp ws = .ok ps) : ∀ q ∈ ps, InSpace sp q := by
  unfold initWarm at h
  cases hm : ws.mapM (warmPos sp) with
  | error e => rw [hm] at h; simp at h
  | ok qs =>
    rw [hm] at h
    simp only [Except.ok.injEq] at h
    subst h
    intro q hq
    obtain ⟨hq1, _⟩ := List.mem_filter.mp hq
    obtain ⟨hl, hk⟩ := EvoRuns.mapM_except_spec (warmPos sp) ws qs hm
    obtain ⟨k, hk1, hk2⟩ := List.getElem_of_mem hq1
    have hkw : k < ws.length := by omega
    obtain ⟨b, hb1, hb2⟩ := hk k ws[k] (List.getElem?_eq_getElem hkw)
    rw [List.getElem?_eq_getElem hk1, hk2] at hb1
    simp only [Option.some.injEq] at hb1
    subst hb1
    exact warmPos_inSpace hsp hb2

/-! ### the whole Initializer -/

/-- what the space must be for the start-up kernels: no empty dimension -/
def DimsOK (sp : Space) : Prop := ∀ d ∈ sp.dims, 0 < d.length

theorem DimsOK.sizes {sp : Space} (h : DimsOK sp) : ∀ s ∈ sp.sizes, 0 < s := by
  intro s hs
  unfold Space.sizes at hs
  obtain ⟨d, hd, rfl⟩ := List.mem_map.mp hs
  exact h d hd

theorem setPosParts_in {sp : Space} (feas : Pos → Bool) (hsp : DimsOK sp) (c : InitCfg) (pPerDim fuel : Nat) {d d' : Draws}
    {l : List Pos} (hd : DrawsIn (InSpace sp) d) (h : setPosParts feas sp c pPerDim fuel d = .ok (l, d')) :
    (∀ p ∈ l, InSpace sp p) ∧ DrawsIn (InSpace sp) d' := by
  unfold setPosParts at h
  cases ha : partRandom feas fuel c.random d with
  | error e => rw [ha] at h; simp at h
  | ok xa =>
    obtain ⟨a, d1⟩ := xa
    rw [ha] at h
    simp only at h
    have hA : (∀ p ∈ a, InSpace sp p) ∧ DrawsIn (InSpace sp) d1 := by
      cases hr : c.random with
      | none =>
        simp only [hr, partRandom, Except.ok.injEq, Prod.mk.injEq] at ha
        obtain ⟨rfl, rfl⟩ := ha
        exact ⟨by intro p hp; simp at hp, hd⟩
      | some n => simp only [hr, partRandom] at ha; exact initRandom_in feas fuel n hd ha
    cases hv : partVertices feas c.vertices d1 with
    | error e => rw [hv] at h; simp at h
    | ok xv =>
      obtain ⟨v, d2⟩ := xv
      rw [hv] at h
      simp only at h
      have hV : (∀ p ∈ v, InSpace sp p) ∧ DrawsIn (InSpace sp) d2 := by
        cases hr : c.vertices with
        | none =>
          simp only [hr, partVertices, Except.ok.injEq, Prod.mk.injEq] at hv
          obtain ⟨rfl, rfl⟩ := hv
          exact ⟨by intro p hp; simp at hp, hA.2⟩
        | some n =>
          simp only [hr, partVertices] at hv
          exact initVertices_in feas n [] hA.2 (by intro p hp; simp at hp) hv
      cases hw : partWarm feas sp c.warm with
      | error e => rw [hw] at h; simp at h
      | ok w =>
        rw [hw] at h
        simp only [Except.ok.injEq, Prod.mk.injEq] at h
        obtain ⟨rfl, rfl⟩ := h
        have hW : ∀ p ∈ w, InSpace sp p := by
          cases hr : c.warm with
          | none => simp only [hr, partWarm, Except.ok.injEq] at hw; subst hw; intro p hp; simp at hp
          | some ws => simp only [hr, partWarm] at hw; exact initWarm_inSpace feas hsp hw
        have hB : ∀ p ∈ partGrid feas sp.sizes pPerDim c.grid, InSpace sp p := by
          cases c.grid with
          | none => intro p hp; simp [partGrid] at hp
          | some n => exact initGrid_inSpace feas hsp.sizes n pPerDim
        refine ⟨?_, hV.2⟩
        intro p hp
        simp only [List.mem_append] at hp
        rcases hp with ((hp | hp) | hp) | hp
        · exact hA.1 p hp
        · exact hB p hp
        · exact hV.1 p hp
        · exact hW p hp

/-- C01 for the initial positions: everything `set_pos` returns is a position of the space -/
theorem initializer_inSpace {sp : Space} (feas : Pos → Bool) (hsp : DimsOK sp) (c : InitCfg) (pPerDim fuel : Nat) {d d' : Draws}
    {ps : List Pos} (hd : DrawsIn (InSpace sp) d) (h : setPos feas sp c pPerDim fuel d = .ok (ps, d')) :
    (∀ p ∈ ps, InSpace sp p) ∧ DrawsIn (InSpace sp) d' := by
  unfold setPos at h
  cases hl : setPosParts feas sp c pPerDim fuel d with
  | error e => simp [hl] at h
  | ok x =>
    obtain ⟨l, d1⟩ := x
    simp only [hl] at h
    cases hr : initRandom feas fuel (c.nInits - l.length) d1 with
    | error e => simp [hr] at h
    | ok y =>
      obtain ⟨rest, d2⟩ := y
      simp only [hr, Except.ok.injEq, Prod.mk.injEq] at h
      obtain ⟨rfl, rfl⟩ := h
      obtain ⟨a1, a2⟩ := setPosParts_in feas hsp c pPerDim fuel hd hl
      obtain ⟨b1, b2⟩ := initRandom_in feas fuel _ a2 hr
      refine ⟨?_, b2⟩
      intro p hp
      rcases List.mem_append.mp hp with e | e
      · exact a1 p e
      · exact b1 p e

/-- the hypothesis `hi` of the whole-run theorems, from the Initializer model -/
theorem initializer_good {sp : Space} (feas : Pos → Bool) (hsp : DimsOK sp) (c : InitCfg) (pPerDim fuel : Nat) {d d' : Draws}
    {ps : List Pos} (hd : DrawsIn (InSpace sp) d) (h : setPos feas sp c pPerDim fuel d = .ok (ps, d')) :
    ∀ q ∈ ps, InSpace sp q ∧ feas q = true :=
  fun q hq => ⟨(initializer_inSpace feas hsp c pPerDim fuel hd h).1 q hq, (initializer_feasible feas sp c pPerDim fuel d d' ps h).1 q hq⟩

theorem addNRandom_good {sp : Space} (feas : Pos → Bool) (fuel : Nat) {l : List Pos} (n : Nat) {d d' : Draws} {ps : List Pos}
    (hd : DrawsIn (InSpace sp) d) (hl : ∀ q ∈ l, InSpace sp q ∧ feas q = true) (h : addNRandom feas fuel l n d = .ok (ps, d')) :
    ∀ q ∈ ps, InSpace sp q ∧ feas q = true := by
  have hf := (addNRandom_feasible feas fuel l n d d' ps (fun p hp => (hl p hp).2) h).1
  unfold addNRandom at h
  cases hr : initRandom feas fuel n d with
  | error e => simp [hr] at h
  | ok y =>
    obtain ⟨extra, d1⟩ := y
    simp only [hr, Except.ok.injEq, Prod.mk.injEq] at h
    obtain ⟨rfl, rfl⟩ := h
    obtain ⟨b1, _⟩ := initRandom_in feas fuel n hd hr
    intro q hq
    refine ⟨?_, hf q hq⟩
    rcases List.mem_append.mp hq with e | e
    · exact (hl q e).1
    · exact b1 q e

/-- `split` hands out nothing but entries of the list it is given -/
theorem splitDeal_mem {α : Type} (l : List α) (pop : Nat) : ∀ part ∈ splitDeal l pop, ∀ x ∈ part, x ∈ l := by
  intro part hpart x hx
  unfold splitDeal at hpart
  simp only [List.mem_map, List.mem_range] at hpart
  obtain ⟨i, _, rfl⟩ := hpart
  simp only [List.mem_filterMap, List.mem_range] at hx
  obtain ⟨j, _, hj⟩ := hx
  exact List.mem_of_getElem? hj

/-- the members' start-up lists of a population (the list of the Initializer, padded, dealt by `split`) are good -/
theorem population_inits_good {sp : Space} (feas : Pos → Bool) {L : List Pos} (pop : Nat)
    (hL : ∀ q ∈ L, InSpace sp q ∧ feas q = true) :
    ∀ part ∈ splitDeal L pop, ∀ q ∈ part, InSpace sp q ∧ feas q = true :=
  fun part hpart q hq => hL q (splitDeal_mem L pop part hpart q hq)

/-- an instance spelled out: a fresh optimizer of the seven local classes whose start-up list is what the Initializer model
    returns evaluates only feasible positions of the space, in its first call -/
theorem C01_C02_local_fresh {cfg : LocalCfg} {sp : Space} {obj : Obj} {c : Call} {f : Pos → Bool} {tape0 : Tape}
    {ic : InitCfg} {pPerDim fuel : Nat} {dr dr' : Draws} {L : List Pos} {d' : DState Local} {r : CallResult}
    (hgeo : cfg.geo = sp.geo) (hsp : SpaceOK sp) (ht : TapeOK sp f tape0) (hdr : DrawsIn (InSpace sp) dr)
    (hinit : setPos f sp ic pPerDim fuel dr = .ok (L, dr')) (hn : 0 < c.nIter)
    (h : searchCall (localBackend cfg) sp obj c { nInits := ic.nInits, bst := { initL := L, tape := tape0 } } = .ok (d', r)) :
    ∀ p ∈ d'.posL, InSpace sp p ∧ f p = true := by
  have hdims : DimsOK sp := fun d hd => (hsp d hd).1
  have hi := initializer_good f hdims ic pPerDim fuel hdr hinit
  have hP : LocalRuns.Inv tape0 L ({ nInits := ic.nInits, bst := { initL := L, tape := tape0 } } : DState Local) :=
    { tape := List.suffix_refl _, initL := rfl, len := rfl, grounded := by simpa [evalLog] using C19.grounded_fresh }
  intro p hp
  have hnew : p ∈ C04.newPos ({ nInits := ic.nInits, bst := { initL := L, tape := tape0 } } : DState Local) d' := by
    unfold C04.newPos; simpa using hp
  exact ⟨C01_local_positions_in_space hgeo hsp ht hi hP hn h p hnew, C02_local_positions_feasible hgeo hsp ht hi hP hn h p hnew⟩

/-- the same for every population optimizer (any backend satisfying the population contract `PopOK`): when the members' start-up
    lists are what `split` deals from a list the Initializer model returned, a call evaluates only feasible positions of the space -/
theorem C01_C02_population_fresh {σ : Type} {b : Backend σ} {view : σ → PopSt} {extra : σ → Prop} {sp : Space} {obj : Obj} {c : Call}
    {f : Pos → Bool} {tape0 : Tape} {ic : InitCfg} {pPerDim fuel pop : Nat} {dr dr' : Draws} {L : List Pos} {d d' : DState σ} {r : CallResult}
    (hb : PopRuns.PopOK b view extra sp f) (hdims : DimsOK sp) (ht : TapeOK sp f tape0) (hdr : DrawsIn (InSpace sp) dr)
    (hinit : setPos f sp ic pPerDim fuel dr = .ok (L, dr'))
    (hP : PopRuns.Inv view extra sp tape0 (splitDeal L pop) d) (hn : 0 < c.nIter) (h : searchCall b sp obj c d = .ok (d', r)) :
    ∀ p ∈ C04.newPos d d', InSpace sp p ∧ f p = true :=
  (PopRuns.pop_call hb ht (population_inits_good f pop (initializer_good f hdims ic pPerDim fuel hdr hinit)) hP hn h).2

end GFO.InitSpace
