/-
  C01 — every evaluated point is a genuine point of the search space.

  (1) kernels (GFO.Model.Kernels): whatever float vector, random draw or parent positions they are handed, the index
      vector they return lies in `[0, size-1]` per dimension - under exactly the hypotheses stated (`noNan` where a nan
      would be cast to INT64_MIN; the witnesses show why the hypothesis is there);
  (2) driver: for an in-space position the parameter set handed to the objective is `dims[k][pos[k]]` with no index
      wrap, and it is the position recorded in `pos_l` (`driver_evaluates_reported`).
  Per-optimizer composition of the kernels is covered by the correspondence and the monitor (see DESIGN.md).
-/
import GFO.Model.Kernels
import GFO.Proofs.Grid
import GFO.Proofs.Run
import GFO.Proofs.Converter
namespace GFO.C01
open GFO

/-- index vector against per-dimension maxima (`max_positions`, all ≥ 0) -/
def inMax : List Int → Pos → Prop
  | [], [] => True
  | m :: ms, p :: ps => 0 ≤ p ∧ p ≤ m ∧ inMax ms ps
  | _, _ => False

theorem castInt_int (z : Int) (h0 : INT64_MIN ≤ z) (h1 : z ≤ INT64_MAX) : castInt (.fin (z : Rat)) = z := by
  unfold castInt truncQ
  by_cases hz : (z : Rat) < 0
  · have hneg : (-(z : Rat)) = ((-z : Int) : Rat) := by simp
    simp only [hz, if_true, hneg, Rat.floor_intCast]
    have : ¬ (- -z < INT64_MIN ∨ - -z > INT64_MAX) := by simp; omega
    simp only [this, if_false]; omega
  · simp only [hz, if_false, Rat.floor_intCast]
    have : ¬ (z < INT64_MIN ∨ z > INT64_MAX) := by omega
    simp [this]

/-- `np.clip(np.rint(x), 0, m).astype(int)` lands in `[0, m]` for every non-nan float -/
theorem clipCast_range (x : F) (m : Int) (hm : 0 ≤ m) (hM : m ≤ INT64_MAX) (hx : x.isNan = false) :
    0 ≤ clipCast x m ∧ clipCast x m ≤ m := by
  have hmin : INT64_MIN ≤ 0 := by decide
  cases x with
  | nan => simp [F.isNan] at hx
  | pinf =>
    simp only [clipCast, rintF, clipF]
    rw [castInt_int m (by omega) hM]; omega
  | ninf =>
    simp only [clipCast, rintF, clipF]
    have : (0 : Rat) = ((0 : Int) : Rat) := by simp
    rw [this, castInt_int 0 (by decide) (by decide)]; omega
  | fin q =>
    simp only [clipCast, rintF, clipF]
    generalize rintQ q = r
    by_cases h1 : ((r : Int) : Rat) < 0
    · simp only [h1, if_true]
      have : (0 : Rat) = ((0 : Int) : Rat) := by simp
      rw [this, castInt_int 0 (by decide) (by decide)]; omega
    · simp only [h1, if_false]
      by_cases h2 : (m : Rat) < ((r : Int) : Rat)
      · simp only [h2, if_true]
        rw [castInt_int m (by omega) hM]; omega
      · simp only [h2, if_false]
        have hr0 : 0 ≤ r := by
          apply Classical.byContradiction; intro hc
          apply h1
          have : r < 0 := by omega
          exact_mod_cast this
        have hrm : r ≤ m := by
          apply Classical.byContradiction; intro hc
          apply h2
          have : m < r := by omega
          exact_mod_cast this
        rw [castInt_int r (by omega) (by omega)]; exact ⟨hr0, hrm⟩

theorem clipCastVec_inMax (v : List F) (ms : List Int) (hlen : v.length = ms.length)
    (hm : ∀ m ∈ ms, 0 ≤ m ∧ m ≤ INT64_MAX) (hv : noNan v = true) : inMax ms (clipCastVec v ms) := by
  induction v generalizing ms with
  | nil => cases ms with
    | nil => simp [clipCastVec, inMax]
    | cons m ms => simp at hlen
  | cons x xs ih =>
    cases ms with
    | nil => simp at hlen
    | cons m ms =>
      simp only [clipCastVec, inMax]
      have hx : x.isNan = false := by
        simp only [noNan, List.any_cons, Bool.not_eq_true', Bool.or_eq_false_iff] at hv; exact hv.1
      have hxs : noNan xs = true := by
        simp only [noNan, List.any_cons, Bool.not_eq_true', Bool.or_eq_false_iff] at hv ⊢; simp [hv.2]
      have h := clipCast_range x m (hm m (by simp)).1 (hm m (by simp)).2 hx
      exact ⟨h.1, h.2, ih ms (by simpa using hlen) (fun k hk => hm k (by simp [hk])) hxs⟩

/-- `conv2pos` returns a position of the space for every nan-free float vector (the far-outside branch returns the
    random position, which is in the space) -/
theorem conv2pos_inSpace (v : List F) (ms : List Int) (size : Nat) (rnd : Pos)
    (hlen : v.length = ms.length) (hm : ∀ m ∈ ms, 0 ≤ m ∧ m ≤ INT64_MAX) (hv : noNan v = true) (hr : inMax ms rnd) :
    inMax ms (conv2pos v ms size rnd) := by
  unfold conv2pos
  simp only
  split
  · exact hr
  · exact clipCastVec_inMax v ms hlen hm hv

/-- why `noNan` is a hypothesis: a nan coordinate survives rint and clip and is cast to INT64_MIN -/
theorem conv2pos_nan_witness : conv2pos [.nan] [9] 10 [0] = [INT64_MIN] := by decide +kernel

/-- `_move_part` truncates THEN clips: in the space for every float, nan and ±inf included -/
theorem movePart_inMax (p : Pos) (v : List F) (ms : List Int) (h1 : p.length = ms.length) (h2 : v.length = ms.length)
    (hm : ∀ m ∈ ms, 0 ≤ m) : inMax ms (movePart p v ms) := by
  induction p generalizing v ms with
  | nil => cases ms with
    | nil => cases v <;> simp [movePart, inMax]
    | cons m ms => simp at h1
  | cons x xs ih =>
    cases ms with
    | nil => simp at h1
    | cons m ms =>
      cases v with
      | nil => simp at h2
      | cons y ys =>
        simp only [movePart, inMax]
        have hm0 : 0 ≤ m := hm m (by simp)
        refine ⟨?_, ?_, ih ys ms (by simpa using h1) (by simpa using h2) (fun k hk => hm k (by simp [hk]))⟩
        · unfold clipI; split <;> (try split) <;> omega
        · unfold clipI; split <;> (try split) <;> omega

theorem spiralCoord_range (x : F) (m : Int) (hm0 : 0 ≤ m) (hmM : m ≤ INT64_MAX) (hx : x.isNan = false) :
    0 ≤ castInt (clipF x m) ∧ castInt (clipF x m) ≤ m := by
  have hmin : INT64_MIN ≤ 0 := by decide
  have hz : (0 : Rat) = ((0 : Int) : Rat) := by simp
  cases x with
  | nan => simp [F.isNan] at hx
  | pinf => simp only [clipF]; rw [castInt_int m (by omega) hmM]; omega
  | ninf => simp only [clipF]; rw [hz, castInt_int 0 (by decide) (by decide)]; omega
  | fin q =>
    simp only [clipF]
    by_cases h1 : q < 0
    · simp only [h1, if_true]
      rw [hz, castInt_int 0 (by decide) (by decide)]; omega
    · simp only [h1, if_false]
      by_cases h2 : (m : Rat) < q
      · simp only [h2, if_true]
        rw [castInt_int m (by omega) hmM]; omega
      · simp only [h2, if_false]
        -- 0 ≤ q ≤ m: the truncation is the floor, between 0 and m
        have hq0 : (0 : Rat) ≤ q := by grind
        have hqm : q ≤ (m : Rat) := by grind
        have hf0 : 0 ≤ q.floor := (Rat.le_floor_iff (x := 0) (a := q)).mpr (by simpa using hq0)
        have hfm : q.floor ≤ m := by
          have h3 := Rat.floor_le q
          have h4 : (q.floor : Rat) ≤ (m : Rat) := Rat.le_trans h3 hqm
          exact_mod_cast h4
        unfold castInt truncQ
        simp only [h1, if_false]
        have : ¬ (q.floor < INT64_MIN ∨ q.floor > INT64_MAX) := by omega
        simp only [this, if_false]; omega

/-- the clip-then-cast at the end of `move_spiral` is in the space for nan-free vectors … -/
theorem spiralClip_inMax (v : List F) (ms : List Int) (hlen : v.length = ms.length)
    (hm : ∀ m ∈ ms, 0 ≤ m ∧ m ≤ INT64_MAX) (hv : noNan v = true) : inMax ms (spiralClip v ms) := by
  induction v generalizing ms with
  | nil => cases ms with
    | nil => simp [spiralClip, inMax]
    | cons m ms => simp at hlen
  | cons x xs ih =>
    cases ms with
    | nil => simp at hlen
    | cons m ms =>
      simp only [spiralClip, inMax]
      have hx : x.isNan = false := by
        simp only [noNan, List.any_cons, Bool.not_eq_true', Bool.or_eq_false_iff] at hv; exact hv.1
      have hxs : noNan xs = true := by
        simp only [noNan, List.any_cons, Bool.not_eq_true', Bool.or_eq_false_iff] at hv ⊢; simp [hv.2]
      obtain ⟨hm0, hmM⟩ := hm m (by simp)
      have h := spiralCoord_range x m hm0 hmM hx
      exact ⟨h.1, h.2, ih ms (by simpa using hlen) (fun k hk => hm k (by simp [hk])) hxs⟩

/-- … and not otherwise -/
theorem spiralClip_nan_witness : spiralClip [.nan] [9] = [INT64_MIN] := by decide +kernel

/-- `move_random`: each chosen index is below its dimension's size -/
theorem moveRandom_inSpace (sizes : List Nat) (choices : List Nat) (h : List.Forall₂ (fun c n => c < n) choices sizes) :
    inBox sizes (moveRandom choices) = true := by
  induction h with
  | nil => rfl
  | cons hc _ ih =>
    simp only [moveRandom, List.map_cons, inBox, Bool.and_eq_true, decide_eq_true_eq] at ih ⊢
    exact ⟨⟨by simp, by simpa using hc⟩, ih⟩

/-- `_init_grid_search`: every grid coordinate `n * int(dim / (p+1))`, `1 ≤ n ≤ p`, is at most `dim = size - 1`, for every
    oracle `p_per_dim` -/
theorem initGrid_inSpace (dim p : Nat) : ∀ x ∈ initGridDim dim p, x ≤ dim := by
  intro x hx
  simp only [initGridDim, List.mem_map, List.mem_range] at hx
  obtain ⟨n, hn, rfl⟩ := hx
  have h1 : (n + 1) * (dim / (p + 1)) ≤ (p + 1) * (dim / (p + 1)) := Nat.mul_le_mul_right _ (by omega)
  have h2 : (p + 1) * (dim / (p + 1)) ≤ dim := Nat.mul_div_le dim (p + 1)
  omega

/-- `_get_random_vertex`: first or last index of every dimension -/
theorem randomVertex_inSpace (sizes : List Nat) (bits : List Bool) (hpos : ∀ n ∈ sizes, 0 < n) (hlen : bits.length = sizes.length) :
    inBoxN sizes (randomVertex sizes bits) = true := by
  induction sizes generalizing bits with
  | nil => cases bits <;> simp [randomVertex, inBoxN]
  | cons n ns ih =>
    cases bits with
    | nil => simp at hlen
    | cons b bs =>
      have hn : 0 < n := hpos n (by simp)
      have := ih bs (fun k hk => hpos k (by simp [hk])) (by simpa using hlen)
      simp only [randomVertex, List.zip_cons_cons, List.map_cons, inBoxN, Bool.and_eq_true, decide_eq_true_eq] at this ⊢
      refine ⟨?_, this⟩
      cases b <;> simp <;> omega

/-- both `grid_move` decoders return positions of the box (orthogonal: for every pointer; diagonal: for pointers < |S|) -/
theorem gridMove_inSpace (dims : List Nat) (hpos : ∀ n ∈ dims, 0 < n) (p : Nat) :
    inBoxN dims (decodeOrth dims p) = true ∧ (p < prodN dims → inBoxN dims (decodeDiag dims p) = true) :=
  ⟨decodeOrth_inBox dims hpos p, decodeDiag_inBox dims hpos p⟩

variable {σ : Type}

/-- the driver evaluates what it reports: for an in-space position the values handed to the objective (and recorded in the
    row) are `dims[k][pos[k]]` without index wrap, and that very position is what `pos_l` records -/
theorem driver_evaluates_reported {sp : Space} {obj : Obj} {c : Call} {i : Nat} {d d' : DState σ} {cs cs' : CState}
    {p : Pos} {v : Value} {e : Eval} (f : StepFacts sp obj c i d d' cs cs' p v e) (hp : InSpace sp p) :
    d'.posL = d.posL ++ [p] ∧ d'.rows = d.rows ++ [rowOf e.res (value2para sp.names v)] ∧
    v.length = sp.dims.length ∧
    ∀ k (hk : k < sp.dims.length), ∃ (x : Int) (dk : List Rat) (hx : x.toNat < dk.length),
      p[k]? = some x ∧ sp.dims[k]? = some dk ∧ 0 ≤ x ∧ v[k]? = some dk[x.toNat] := by
  refine ⟨f.posL, f.rows, ?_, ?_⟩
  · obtain ⟨v', hv', hlen⟩ := position2value_inSpace sp.dims p hp
    rw [f.hv] at hv'; cases hv'; exact hlen
  · have hv := f.hv
    clear f
    have : ∀ (dims : List (List Rat)) (p : Pos) (v : Value), inBox (dims.map List.length) p = true →
        position2value dims p = .ok v → ∀ k (hk : k < dims.length), ∃ (x : Int) (dk : List Rat) (hx : x.toNat < dk.length),
          p[k]? = some x ∧ dims[k]? = some dk ∧ 0 ≤ x ∧ v[k]? = some dk[x.toNat] := by
      intro dims
      induction dims with
      | nil => intro p v _ _ k hk; simp at hk
      | cons d0 ds ih =>
        intro p v hbox hpv k hk
        cases p with
        | nil => simp [inBox] at hbox
        | cons x xs =>
          simp only [List.map_cons, inBox, Bool.and_eq_true, decide_eq_true_eq] at hbox
          obtain ⟨⟨h0, h1⟩, hrest⟩ := hbox
          obtain ⟨hh, hidx⟩ := pyIndex_inRange d0 x h0 h1
          simp only [position2value, hidx, bind, Except.bind, pure, Except.pure] at hpv
          cases hvs : position2value ds xs with
          | error e => simp [hvs] at hpv
          | ok vs =>
            simp only [hvs, Except.ok.injEq] at hpv
            subst hpv
            cases k with
            | zero => exact ⟨x, d0, hh, by simp, by simp, h0, by simp⟩
            | succ k' =>
              obtain ⟨x', dk, hx', a, b, c', e'⟩ := ih xs vs hrest hvs k' (by simpa using hk)
              exact ⟨x', dk, hx', by simpa using a, by simpa using b, c', by simpa using e'⟩
    exact this sp.dims p v hp hv

end GFO.C01
