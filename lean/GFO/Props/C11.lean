/-
  C11 — memory_warm_start rows are trusted verbatim and never re-evaluated.

  Model: `initMemory` (Memory.__init__ + dataframe2memory_dict, after fix 505e3c7) and `evalAt` inside `searchCall`.
  For every backend, deterministic objective `od`, space (ANY order of the arrays - the lookup is the nearest-element
  one, see C20) and warm-start dictionary `m0`:
    * a step whose parameter set has its key in `m0` is answered from the dictionary - the objective is not called -
      and its row/score carry the dataframe's score;
    * every other step's row equals `od(parameters)` (evaluated once, then cached);
    * the loader and the wrapper compute the same key (`lookup_key_agrees`), and a dataframe row `(values, score)`
      of the space is stored under the position of its values (`warm_row_loaded`).
-/
import GFO.Props.C04
import GFO.Props.C20
namespace GFO.C11
open GFO GFO.C04
variable {σ : Type}

/-- the cache invariant in the presence of trusted warm-start entries `m0` -/
structure MemWarm (od : Value → Res) (sp : Space) (m0 mem : Dict Res) : Prop where
  keep : ∀ k res, m0.get? k = some res → mem.get? k = some res
  other : ∀ k res, mem.get? k = some res → m0.get? k = some res ∨
    (m0.get? k = none ∧ ∃ v, InSpace sp k ∧ position2value sp.dims k = .ok v ∧ res = od v)

/-- what one evaluation does under that invariant -/
theorem evalAt_warm {sp : Space} {obj : Obj} {od : Value → Res} {c : Call} {nCalls nRows : Nat}
    {m0 mem : Dict Res} {calls : List Pos} {p : Pos} {v : Value} {e : Eval}
    (hwf : sp.WF) (hdet : Det obj od) (hmem : c.memory ≠ .off) (hok : MemWarm od sp m0 mem)
    (hv : position2value sp.dims p = .ok v)
    (he : evalAt sp obj c nCalls nRows mem calls v = .ok e) :
    MemWarm od sp m0 e.mem ∧
    ∃ k, keyOf sp v = .ok k ∧
      (∀ res, m0.get? k = some res → e.fresh = false ∧ e.res = res) ∧
      (m0.get? k = none → e.res = od v) := by
  have hmw := position2value_memberwise sp.dims p v hv
  obtain ⟨k, hk, hbox, hback⟩ := key_of_memberwise sp.dims v hmw
  have hlen' : v.length = sp.names.length := by rw [memberwise_length sp.dims v hmw, hwf.1]
  have hpv := para2value_value2para sp.names hwf.2.1 v hlen'
  have hkey : keyOf sp v = .ok (k.map Int.ofNat) := by
    simp [keyOf, hpv, hk, bind, Except.bind, pure, Except.pure]
  unfold evalAt at he
  simp only [hmem, if_false, hpv, hk, bind, Except.bind, pure, Except.pure] at he
  cases hget : mem.get? (k.map Int.ofNat) with
  | some res =>
    simp only [hget, Except.ok.injEq] at he
    subst he
    refine ⟨hok, k.map Int.ofNat, hkey, ?_, ?_⟩
    · intro res0 h0
      have := hok.keep _ _ h0
      rw [hget] at this; cases this
      exact ⟨rfl, rfl⟩
    · intro hnone
      rcases hok.other _ _ hget with h | ⟨_, v', _, hv', hres⟩
      · rw [hnone] at h; cases h
      · rw [hback] at hv'; cases hv'; exact hres
  | none =>
    simp only [hget, Except.ok.injEq] at he
    subst he
    have hres : (obj nCalls nRows v).1 = od v := hdet _ _ _
    have hm0none : m0.get? (k.map Int.ofNat) = none := by
      cases h0 : m0.get? (k.map Int.ofNat) with
      | none => rfl
      | some r0 => have := hok.keep _ _ h0; rw [hget] at this; cases this
    refine ⟨?_, k.map Int.ofNat, hkey, ?_, fun _ => hres⟩
    · constructor
      · intro k2 res2 h2
        by_cases hk2 : k.map Int.ofNat = k2
        · subst hk2; rw [hm0none] at h2; cases h2
        · simp only; rw [Dict.get?_set_other _ _ _ _ hk2]; exact hok.keep _ _ h2
      · intro k2 res2 h2
        by_cases hk2 : k.map Int.ofNat = k2
        · subst hk2
          simp only at h2
          rw [Dict.get?_set_self] at h2; cases h2
          right; exact ⟨hm0none, v, hbox, hback, hres⟩
        · simp only at h2
          rw [Dict.get?_set_other _ _ _ _ hk2] at h2
          exact hok.other _ _ h2
    · intro res0 h0; rw [hm0none] at h0; cases h0

/-- C11 main statement: with memory on and warm-start dictionary `m0` (whatever it holds), every step whose key is in
    `m0` is answered from it without calling the objective and records the dictionary's result; every other step
    records `od(parameters)` -/
theorem warm_trusted_rest_evaluated {b : Backend σ} {sp : Space} {obj : Obj} {od : Value → Res} {c : Call}
    {d d' : DState σ} {r : CallResult} {m0 : Dict Res}
    (hwf : sp.WF) (hdet : Det obj od) (h : searchCall b sp obj c d = .ok (d', r)) (hn : 0 < c.nIter)
    (hmem : c.memory ≠ .off) (hm0 : initMemory sp c d.shared = .ok m0) :
    ∃ tr : List StepRec,
      newPos d d' = tr.map StepRec.pos ∧
      newRows d d' = tr.map (fun t => rowOf t.eval.res (value2para sp.names t.value)) ∧
      newScores d d' = tr.map StepRec.score ∧
      ∀ t ∈ tr, position2value sp.dims t.pos = .ok t.value ∧
        ∃ k, keyOf sp t.value = .ok k ∧
          (∀ res, m0.get? k = some res → t.eval.fresh = false ∧ t.eval.res = res) ∧
          (m0.get? k = none → t.eval.res = od t.value) := by
  let Q : StepRec → Prop := fun t => position2value sp.dims t.pos = .ok t.value ∧
      ∃ k, keyOf sp t.value = .ok k ∧
        (∀ res, m0.get? k = some res → t.eval.fresh = false ∧ t.eval.res = res) ∧
        (m0.get? k = none → t.eval.res = od t.value)
  have hstep : ∀ i (d d1 : DState σ) (cs cs1 : CState) p v e, MemWarm od sp m0 cs.mem →
      StepFacts sp obj c i d d1 cs cs1 p v e → BStep b (i < cs.nInitsNorm) d.bst d1.bst p e.res.score →
      MemWarm od sp m0 cs1.mem ∧ Q (p, v, e) := by
    intro i d d1 cs cs1 p v e hP f _
    obtain ⟨hP1, k, hk, h1, h2⟩ := evalAt_warm hwf hdet hmem hP f.hv f.he
    exact ⟨by rw [f.mem]; exact hP1, f.hv, k, hk, h1, h2⟩
  have hstart : ∀ cs, initSearch sp c d = .ok cs → MemWarm od sp m0 cs.mem := by
    intro cs hcs
    have := (initSearch_ok hcs).2.2.2.2.2.2.2.2.2.2
    rw [hm0] at this; cases this
    exact ⟨fun _ _ h => h, fun k res h => Or.inl h⟩
  obtain ⟨cs, d1, cs1, tr, _, hfin, T, _, hQ⟩ :=
    searchCall_inv (fun (_ : DState σ) cs => MemWarm od sp m0 cs.mem) Q hstep h hn hstart
  have hf := finishSearch_ok hfin
  refine ⟨tr, ?_, ?_, ?_, hQ⟩
  · simp only [newPos, hf.2.1, T.posL, List.drop_left]
  · simp only [newRows, hf.1, T.rows, List.drop_left]
  · simp only [newScores, hf.2.2.1, T.scoreL, List.drop_left]

/-- loader and wrapper use the same key function (in the model by construction; for the code - vectorised arg-min vs
    scalar arg-min - this is what the function-level correspondence checks) -/
theorem lookup_key_agrees (dims : List (List Rat)) (vs : List Value) :
    values2positions dims vs = vs.mapM (value2position dims) := rfl

/-- a warm-start dataframe whose rows are distinct positions of the space (values taken from the space, any array
    order) is loaded as: position of the values ↦ the row's score -/
theorem warm_row_loaded (sp : Space) (hnd : ∀ d ∈ sp.dims, d.Nodup) (ps : List Pos) (scores : List F)
    (hin : ∀ p ∈ ps, InSpace sp p) (hdist : ps.Nodup) (hlen : scores.length = ps.length) :
    ∃ vs, positions2values sp.dims ps = .ok vs ∧
      dataframe2memoryDict sp.dims (vs.zip scores) = .ok (ps.zip scores) := by
  let m : Dict F := ps.zip scores
  have hm : m.keys = ps := by
    simp only [Dict.keys, m]
    exact (C20.map_fst_zip_of_length ps scores hlen.symm).1
  obtain ⟨df, h1, h2⟩ := C20.memdict_df_roundtrip sp hnd m (by rw [hm]; exact hdist)
    (by rw [hm]; exact hin)
  unfold memoryDict2dataframe at h1
  rw [hm] at h1
  cases hvs : positions2values sp.dims ps with
  | error e => simp [hvs, bind, Except.bind] at h1
  | ok vs =>
    simp only [hvs, bind, Except.bind, pure, Except.pure, Except.ok.injEq] at h1
    refine ⟨vs, rfl, ?_⟩
    have : m.map (·.2) = scores := (C20.map_fst_zip_of_length ps scores hlen.symm).2
    rw [this] at h1
    rw [h1]; exact h2

end GFO.C11
