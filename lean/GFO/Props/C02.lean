/-
  C02 — constraints hold for every parameter set the objective is evaluated on.

  Model: GFO.Model.Init (`Initializer`, after fixes e0720d0 and 010c87e) and the loop kernels. `feas : Pos → Bool` is an
  arbitrary feasibility oracle (a deterministic function of the position - the constraints are functions of the
  parameter set, which is a function of the position).
    * every initial position (random, grid, vertices, warm start, fill-rest, population padding) is feasible, and there are
      at least `n_inits` of them (exactly `n_inits` when no part over-delivers - none does);
    * the rejection loops (`move_random`, `_init_random_search`, `move_climb`, `_constraint_loop`) return only a position that
      passed the check - the first such candidate, after exactly that many constraint evaluations;
    * `guarded`: "check, else fall back to a kernel that checks" emits a feasible position - the shape of every `iterate`.
  That each optimizer's `iterate` HAS this shape is what the backend-level correspondence (constraint log per step) and the
  monitor establish on every run.
-/
import GFO.Model.Init
namespace GFO.C02
open GFO

theorem drawFeasible_ok (feas : Pos → Bool) (fuel : Nat) (d d' : Draws) (p : Pos)
    (h : drawFeasible feas fuel d = .ok (p, d')) : feas p = true ∧ d'.vtx = d.vtx := by
  induction fuel generalizing d with
  | zero => simp [drawFeasible] at h
  | succ fuel ih =>
    simp only [drawFeasible, nextRnd] at h
    cases hr : d.rnd with
    | nil => simp [hr] at h
    | cons q qs =>
      simp only [hr] at h
      by_cases hf : feas q = true
      · simp only [hf, if_true, Except.ok.injEq, Prod.mk.injEq] at h
        obtain ⟨h1, h2⟩ := h
        subst h1; subst h2
        exact ⟨hf, rfl⟩
      · simp only [hf, Bool.false_eq_true, if_false] at h
        have := ih { d with rnd := qs } h
        exact ⟨this.1, this.2⟩

/-- `_init_random_search(n)`: exactly `n` positions, all feasible -/
theorem initRandom_ok (feas : Pos → Bool) (fuel : Nat) (n : Nat) (d d' : Draws) (ps : List Pos)
    (h : initRandom feas fuel n d = .ok (ps, d')) : ps.length = n ∧ (∀ p ∈ ps, feas p = true) ∧ d'.vtx = d.vtx := by
  induction n generalizing d ps with
  | zero =>
    simp only [initRandom, Except.ok.injEq, Prod.mk.injEq] at h
    obtain ⟨h1, h2⟩ := h; subst h1; subst h2
    exact ⟨rfl, by intro p hp; simp at hp, rfl⟩
  | succ n ih =>
    simp only [initRandom] at h
    cases h1 : drawFeasible feas fuel d with
    | error e => simp [h1] at h
    | ok x =>
      obtain ⟨p, d1⟩ := x
      simp only [h1] at h
      cases h2 : initRandom feas fuel n d1 with
      | error e => simp [h2] at h
      | ok y =>
        obtain ⟨qs, d2⟩ := y
        simp only [h2, Except.ok.injEq, Prod.mk.injEq] at h
        obtain ⟨h3, h4⟩ := h; subst h3; subst h4
        have a := drawFeasible_ok feas fuel d d1 p h1
        have b := ih d1 qs h2
        refine ⟨by simp [b.1], ?_, by rw [b.2.2, a.2]⟩
        intro q hq
        rcases List.mem_cons.mp hq with e | e
        · subst e; exact a.1
        · exact b.2.1 q e

/-- grid, vertices and warm-start positions are filtered by the constraints -/
theorem initGrid_feasible (feas : Pos → Bool) (sizes : List Nat) (n p : Nat) : ∀ q ∈ initGrid feas sizes n p, feas q = true := by
  intro q hq
  unfold initGrid at hq
  split at hq
  · simp at hq
  · split at hq
    · simp at hq
    · exact (List.mem_filter.mp hq).2

theorem initWarm_feasible (feas : Pos → Bool) (sp : Space) (ws : List Para) (ps : List Pos) (h : initWarm feas sp ws = .ok ps) :
    ∀ q ∈ ps, feas q = true := by
  unfold initWarm at h
  split at h
  · simp at h
  · simp only [Except.ok.injEq] at h; subst h
    intro q hq; exact (List.mem_filter.mp hq).2

theorem initVertices_feasible (feas : Pos → Bool) (n : Nat) (acc : List Pos) (d d' : Draws) (ps : List Pos)
    (h : initVertices feas n acc d = .ok (ps, d')) : ∀ q ∈ ps, feas q = true := by
  induction n generalizing acc d with
  | zero =>
    simp only [initVertices, Except.ok.injEq, Prod.mk.injEq] at h
    obtain ⟨h1, _⟩ := h; subst h1
    intro q hq; exact (List.mem_filter.mp hq).2
  | succ n ih =>
    simp only [initVertices] at h
    cases h1 : pickVertex acc 100 d with
    | error e => simp [h1] at h
    | ok x =>
      obtain ⟨v, d1⟩ := x
      simp only [h1] at h
      exact ih (acc ++ [v]) d1 h

theorem setPosParts_feasible (feas : Pos → Bool) (sp : Space) (c : InitCfg) (pPerDim fuel : Nat) (d d' : Draws) (l : List Pos)
    (h : setPosParts feas sp c pPerDim fuel d = .ok (l, d')) : ∀ p ∈ l, feas p = true := by
  unfold setPosParts at h
  cases ha : partRandom feas fuel c.random d with
  | error e => rw [ha] at h; simp at h
  | ok xa =>
    obtain ⟨a, d1⟩ := xa
    rw [ha] at h
    simp only at h
    have hA : ∀ p ∈ a, feas p = true := by
      cases hr : c.random with
      | none => simp [hr, partRandom] at ha; obtain ⟨e1, _⟩ := ha; subst e1; intro p hp; simp at hp
      | some n => simp only [hr, partRandom] at ha; exact (initRandom_ok feas fuel n d d1 a ha).2.1
    cases hv : partVertices feas c.vertices d1 with
    | error e => rw [hv] at h; simp at h
    | ok xv =>
      obtain ⟨v, d2⟩ := xv
      rw [hv] at h
      simp only at h
      have hV : ∀ p ∈ v, feas p = true := by
        cases hr : c.vertices with
        | none => simp [hr, partVertices] at hv; obtain ⟨e1, _⟩ := hv; subst e1; intro p hp; simp at hp
        | some n => simp only [hr, partVertices] at hv; exact initVertices_feasible feas n [] d1 d2 v hv
      cases hw : partWarm feas sp c.warm with
      | error e => rw [hw] at h; simp at h
      | ok w =>
        rw [hw] at h
        simp only [Except.ok.injEq, Prod.mk.injEq] at h
        obtain ⟨hl, _⟩ := h
        subst hl
        have hW : ∀ p ∈ w, feas p = true := by
          cases hr : c.warm with
          | none => simp [hr, partWarm] at hw; subst hw; intro p hp; simp at hp
          | some ws => simp only [hr, partWarm] at hw; exact initWarm_feasible feas sp ws w hw
        have hB : ∀ p ∈ partGrid feas sp.sizes pPerDim c.grid, feas p = true := by
          cases c.grid with
          | none => intro p hp; simp [partGrid] at hp
          | some n => exact initGrid_feasible feas sp.sizes n pPerDim
        intro p hp
        simp only [List.mem_append] at hp
        rcases hp with ((hp | hp) | hp) | hp
        · exact hA p hp
        · exact hB p hp
        · exact hV p hp
        · exact hW p hp

/-- C02 for the initial positions: everything `set_pos` returns is feasible, and there are at least `n_inits` of them -/
theorem initializer_feasible (feas : Pos → Bool) (sp : Space) (c : InitCfg) (pPerDim fuel : Nat) (d d' : Draws) (ps : List Pos)
    (h : setPos feas sp c pPerDim fuel d = .ok (ps, d')) :
    (∀ p ∈ ps, feas p = true) ∧ c.nInits ≤ ps.length := by
  unfold setPos at h
  cases hl : setPosParts feas sp c pPerDim fuel d with
  | error e => simp [hl] at h
  | ok x =>
    obtain ⟨l, d1⟩ := x
    simp only [hl] at h
    cases hr : initRandom feas fuel (c.nInits - l.length) d1 with
    | error e => simp [hr] at h
    | ok y =>
      obtain ⟨rest, d2⟩ := y
      simp only [hr, Except.ok.injEq, Prod.mk.injEq] at h
      obtain ⟨hps, _⟩ := h
      subst hps
      have a := setPosParts_feasible feas sp c pPerDim fuel d d1 l hl
      have b := initRandom_ok feas fuel _ d1 d2 rest hr
      refine ⟨?_, by simp [b.1]; omega⟩
      intro p hp
      rcases List.mem_append.mp hp with e | e
      · exact a p e
      · exact b.2.1 p e

/-- the padding of a population larger than the number of initial positions is feasible too -/
theorem addNRandom_feasible (feas : Pos → Bool) (fuel : Nat) (l : List Pos) (n : Nat) (d d' : Draws) (ps : List Pos)
    (hl : ∀ p ∈ l, feas p = true) (h : addNRandom feas fuel l n d = .ok (ps, d')) :
    (∀ p ∈ ps, feas p = true) ∧ ps.length = l.length + n := by
  unfold addNRandom at h
  cases hr : initRandom feas fuel n d with
  | error e => simp [hr] at h
  | ok y =>
    obtain ⟨extra, d1⟩ := y
    simp only [hr, Except.ok.injEq, Prod.mk.injEq] at h
    obtain ⟨hps, _⟩ := h
    subst hps
    have b := initRandom_ok feas fuel n d d1 extra hr
    refine ⟨?_, by simp [b.1]⟩
    intro p hp
    rcases List.mem_append.mp hp with e | e
    · exact hl p e
    · exact b.2.1 p e

/-! ### the loops and the shape of `iterate` -/

/-- a retry loop over a stream of candidates (`move_climb`, `move_random`, `_constraint_loop`, the grid `while True`):
    returns the first candidate that passes and how many constraint evaluations that took -/
def firstFeasible (feas : Pos → Bool) : List Pos → Nat → Option (Pos × Nat)
  | [], _ => none
  | c :: cs, k => if feas c then some (c, k + 1) else firstFeasible feas cs (k + 1)

theorem firstFeasible_spec (feas : Pos → Bool) (cands : List Pos) (k0 : Nat) (p : Pos) (k : Nat)
    (h : firstFeasible feas cands k0 = some (p, k)) :
    feas p = true ∧ ∃ pre post, cands = pre ++ p :: post ∧ (∀ q ∈ pre, feas q = false) ∧ k = k0 + pre.length + 1 := by
  induction cands generalizing k0 with
  | nil => simp [firstFeasible] at h
  | cons c cs ih =>
    simp only [firstFeasible] at h
    by_cases hc : feas c = true
    · simp only [hc, if_true, Option.some.injEq, Prod.mk.injEq] at h
      obtain ⟨h1, h2⟩ := h; subst h1; subst h2
      exact ⟨hc, [], cs, rfl, by intro q hq; simp at hq, by simp⟩
    · simp only [hc, Bool.false_eq_true, if_false] at h
      obtain ⟨hp, pre, post, hs, hall, hk⟩ := ih (k0 + 1) h
      refine ⟨hp, c :: pre, post, by simp [hs], ?_, by simp [hk]; omega⟩
      intro q hq
      rcases List.mem_cons.mp hq with e | e
      · subst e; simpa using hc
      · exact hall q e

/-- "check, else fall back to a kernel that checks": the emitted position is feasible -/
def guarded (feas : Pos → Bool) (p : Pos) (fallback : Pos) : Pos := if feas p then p else fallback

theorem guarded_feasible (feas : Pos → Bool) (p fb : Pos) (hfb : feas fb = true) : feas (guarded feas p fb) = true := by
  unfold guarded; split <;> assumption

/-- … where the orthogonal grid step at the pinned commit emitted the grid point unchecked -/
theorem orthGrid_legacy_witness : ∃ (feas : Pos → Bool) (p fb : Pos), feas p = false ∧ feas (guarded feas p fb) = true ∧ feas fb = true :=
  ⟨fun p => p == [0], [1], [0], rfl, rfl, rfl⟩

end GFO.C02
