/-
  C15 at the `evaluate` of the complete models that C15_local_evaluate_total (the seven local optimizers) does not cover: no
  SCORE - nan, +inf, -inf or finite - makes `evaluate` / `evaluate_init` of these optimizers fail.  Whether the call fails is
  decided by the state alone (no current member; for DIRECT: no recorded bound left on the tape), stated as an equivalence.

    GridSearch                                           total
    Bayesian / TPE / Forest / Lipschitz                  ok  <->  not (candidate array built from an empty list and replacement=False)
    ParticleSwarm, EvolutionStrategy, DifferentialEvolution, GeneticAlgorithm (non-stochastic members), Spiral
                                                         ok  <->  there is a current member
    DirectAlgorithm                                      ok  <->  not yet iterating, or the next tape entry is a bound
-/
import GFO.Props.DirectRuns
import GFO.Model.GridBackend
namespace GFO.EvalTotal
open GFO

theorem C15_grid_evaluate_total (cfg : GridCfg) (s : GridSt) (score : F) :
    (∃ s', (gridBackend cfg).evaluate s score = .ok s') ∧ (∃ s', (gridBackend cfg).evalInit s score = .ok s') :=
  ⟨⟨_, rfl⟩, ⟨_, rfl⟩⟩

/-- the surrogate-model optimizers: `evaluate_init` is total; `evaluate` fails exactly when `_remove_position` meets a candidate
    array built from an empty list (`flat`) - decided by the state and `replacement`, never by the score -/
theorem C15_smbo_evaluate_total (cfg : SmboCfg) (s : SmboSt) (score : F) :
    ((∃ s', (smboBackend cfg).evaluate s score = .ok s') ↔ ¬ (s.flat = true ∧ cfg.replacement = false)) ∧
    (∃ s', (smboBackend cfg).evalInit s score = .ok s') := by
  refine ⟨?_, ⟨_, rfl⟩⟩
  show (∃ s', smboEvaluateE cfg s score = .ok s') ↔ _
  unfold smboEvaluateE
  by_cases h : s.flat = true ∧ cfg.replacement = false
  · simp only [h, and_self, if_true, not_true_eq_false, iff_false, not_exists]
    intro s' hs
    split at hs
    · split at hs <;> simp at hs
    · simp at hs
  · simp [h]

/-- `evaluate_init` of every population: fails only when no member is current, whatever the score -/
theorem C15_population_evalInit (s : PopSt) (score : F) :
    (∃ s', ptEvalInit s score = .ok s') ↔ (∃ m, s.members[s.cur]? = some m) := by
  unfold ptEvalInit
  cases h : s.members[s.cur]? with
  | none => simp
  | some m => simp

/-- particles / individuals (members whose `evaluate` is hill climbing's): fails only when no member is current -/
theorem C15_pso_evaluate (cfg : LocalCfg) (hk : cfg.kind ≠ .stochastic) (s : PopSt) (score : F) :
    (∃ s', psoEvaluate cfg s score = .ok s') ↔ (∃ m, s.members[s.cur]? = some m) := by
  unfold psoEvaluate ptEvalMember
  cases h : s.members[s.cur]? with
  | none => simp
  | some m =>
    simp only [Option.some.injEq, exists_eq', iff_true]
    rcases localEvaluate_total cfg { m with tape := s.tape } score with ⟨m', hm'⟩ | ⟨hs, _⟩
    · rw [hm']; exact ⟨_, rfl⟩
    · exact absurd hs hk

theorem C15_spiral_evaluate (s : PopSt) (score : F) :
    (∃ s', spiralEvaluate s score = .ok s') ↔ (∃ m, s.members[s.cur]? = some m) := by
  unfold spiralEvaluate
  cases h : s.members[s.cur]? with
  | none => simp
  | some m => simp

/-- DIRECT: `evaluate` fails only for want of the recorded bound, never because of the score -/
theorem C15_direct_evaluate (s : DirSt) (score : F) :
    (∃ s', dirEvaluate s score = .ok s') ↔ (s.iterState = false ∨ ∃ b rest, s.tape = Draw.vec [b] :: rest) := by
  unfold dirEvaluate
  simp only
  by_cases hi : s.iterState = true
  · simp only [hi, not_true_eq_false, if_false, Bool.true_eq_false, false_or]
    constructor
    · intro ⟨s', h⟩
      split at h
      · rename_i b rest htape; exact ⟨b, rest, htape⟩
      · simp at h
      · simp at h
    · intro ⟨b, rest, htape⟩
      rw [htape]
      exact ⟨_, rfl⟩
  · simp only [Bool.not_eq_true] at hi
    simp [hi]

theorem C15_direct_evalInit_total (cfg : DirCfg) (s : DirSt) (score : F) : ∃ s', (dirBackend cfg).evalInit s score = .ok s' :=
  ⟨_, rfl⟩

end GFO.EvalTotal
