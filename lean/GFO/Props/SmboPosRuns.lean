/-
  C01 / C02 / C19 through the complete model of the surrogate-model optimizers (BayesianOptimizer,
  TreeStructuredParzenEstimators, ForestOptimizer, LipschitzOptimizer; GFO.Model.SmboBackend) run by the real driver model,
  for every configuration, objective, call, prior state and tape:

    C01_C02_smbo_positions       every position a call evaluates is a feasible position of the space: a start-up position, a
                                 row of the candidate set (the rows of `_all_possible_pos` that passed the constraint filter,
                                 never re-checked later - so the statement needs, and names, the assumption that the verdict
                                 recorded for a row of the grid is the constraint's verdict), or a `move_random` fallback
    C19_smbo_tracker_grounded    the tracked pairs and valid lists are really evaluated pairs
    smbo_candidates_shrink       the candidate set after a call is a sub-multiset of the one `finish_initialization` built
-/
import GFO.Props.SmboRuns
import GFO.Props.DirectRuns
namespace GFO.SmboPosRuns
open GFO GFO.C01 GFO.C19 GFO.LocalRuns GFO.PopRuns GFO.EvoRuns GFO.SmboRuns

/-- what the recording promises about `_all_possible_pos`: rows are positions of the space and a row's verdict is the
    constraint's verdict -/
def GridOK (sp : Space) (f : Pos → Bool) (tape : Tape) : Prop :=
  ∀ grid bits rest, (Draw.inits grid :: Draw.choice bits :: rest) <:+ tape →
    ∀ e ∈ grid.zip bits, e.2 ≠ 0 → InSpace sp e.1 ∧ f e.1 = true

theorem GridOK.suffix {sp : Space} {f : Pos → Bool} {t1 t2 : Tape} (h : GridOK sp f t2) (hs : t1 <:+ t2) : GridOK sp f t1 :=
  fun grid bits rest hx => h grid bits rest (hx.trans hs)

def Good (sp : Space) (f : Pos → Bool) (l : List Pos) : Prop := ∀ q ∈ l, InSpace sp q ∧ f q = true

theorem allPossiblePos_spec {sp : Space} {f : Pos → Bool} {tape rest : Tape} {cands : List Pos} (hg : GridOK sp f tape)
    (h : allPossiblePos tape = .ok (cands, rest)) : rest <:+ tape ∧ Good sp f cands := by
  unfold allPossiblePos at h
  split at h
  · rename_i grid bits rest0
    split at h
    · simp at h
    · simp only [Except.ok.injEq, Prod.mk.injEq] at h
      obtain ⟨rfl, rfl⟩ := h
      refine ⟨⟨[.inits grid, .choice bits], rfl⟩, ?_⟩
      intro q hq
      obtain ⟨e, he, rfl⟩ := List.mem_map.mp hq
      obtain ⟨hmem, hbit⟩ := List.mem_filter.mp he
      exact hg grid bits rest0 (List.suffix_refl _) e hmem (by simpa using hbit)
  · simp at h
  · simp at h
  · simp at h

theorem sampleCands_sub {cands pc : List Pos} {idxs : List Nat} (h : sampleCands cands idxs = .ok pc) : ∀ q ∈ pc, q ∈ cands := by
  unfold sampleCands at h
  split at h
  · simp only [Except.ok.injEq] at h; subst h; exact fun q hq => hq
  · obtain ⟨hl, hk⟩ := mapM_except_spec _ idxs pc h
    intro q hq
    obtain ⟨k, hk1, hk2⟩ := List.getElem_of_mem hq
    have hki : k < idxs.length := by omega
    obtain ⟨b, hb1, hb2⟩ := hk k idxs[k] (List.getElem?_eq_getElem hki)
    rw [List.getElem?_eq_getElem hk1, hk2] at hb1
    simp only [Option.some.injEq] at hb1
    subst hb1
    split at hb2
    · rename_i p' hp'
      simp only [Except.ok.injEq] at hb2
      subst hb2
      exact List.mem_of_getElem? hp'
    · simp at hb2

theorem pickByAcq_spec {pc : List Pos} {tape rest : Tape} {p : Pos} (h : pickByAcq pc tape = .ok (p, rest)) :
    rest <:+ tape ∧ p ∈ pc := by
  obtain ⟨acq, perm, i0, ht, _, hp, _⟩ := C17_smbo_proposal_argmax h
  exact ⟨⟨[.vec acq, .sorted perm], ht.symm⟩, List.mem_of_getElem? hp⟩

theorem proposeByModel_spec {cands : List Pos} {tape rest : Tape} {p : Pos} (h : proposeByModel cands tape = .ok (p, rest)) :
    rest <:+ tape ∧ p ∈ cands := by
  unfold proposeByModel at h
  split at h
  · rename_i idxs rest0
    cases hs : sampleCands cands idxs with
    | error e => rw [hs] at h; simp at h
    | ok pc =>
      rw [hs] at h
      simp only at h
      split at h
      · simp at h
      · obtain ⟨a, b⟩ := pickByAcq_spec h
        exact ⟨a.trans (List.suffix_cons _ _), sampleCands_sub hs p b⟩
  · simp at h
  · simp at h

theorem smboPropose_spec {cfg : SmboCfg} {sp : Space} {f : Pos → Bool} {s : SmboSt} {p : Pos} {rest : Tape}
    (ht : TapeOK sp f s.tape) (hc : Good sp f s.sm.cands) (h : smboPropose cfg s = .ok (p, rest)) :
    rest <:+ s.tape ∧ InSpace sp p ∧ f p = true := by
  unfold smboPropose at h
  split at h
  · -- Lipschitz
    split at h
    · obtain ⟨a, b, c⟩ := moveRandomLoop_spec h
      exact ⟨a, ht.rnd p b, (ht.feas p true c).symm⟩
    split at h
    · rename_i idxs rest0 htape
      cases hs : sampleCands s.sm.cands idxs with
      | error e => rw [hs] at h; simp at h
      | ok pc =>
        rw [hs] at h
        simp only at h
        split at h
        · simp at h
        · obtain ⟨a, b⟩ := pickByAcq_spec h
          refine ⟨?_, hc p (sampleCands_sub hs p b)⟩
          rw [htape]; exact a.trans (List.suffix_cons _ _)
    · simp at h
    · simp at h
  · cases htt : trainTape cfg s with
    | error e => rw [htt] at h; simp at h
    | ok tape1 =>
      rw [htt] at h
      simp only at h
      have hs1 : tape1 <:+ s.tape := by
        unfold trainTape at htt
        split at htt
        · cases hm : moveRandomLoop s.tape with
          | error e => rw [hm] at htt; simp at htt
          | ok a =>
            rw [hm] at htt
            simp only [Except.ok.injEq] at htt
            subst htt
            exact (moveRandomLoop_spec (show moveRandomLoop s.tape = .ok (a.1, a.2) from hm)).1
        · simp only [Except.ok.injEq] at htt; subst htt; exact List.suffix_refl _
      split at h
      · rename_i trained rest0
        have hsub : rest0 <:+ s.tape := (List.suffix_cons _ _).trans hs1
        split at h
        · obtain ⟨a, b, c⟩ := moveRandomLoop_spec h
          exact ⟨a.trans hsub, ht.rnd p (hsub.subset b), (ht.feas p true (hsub.subset c)).symm⟩
        · split at h
          · simp at h
          · obtain ⟨a, b⟩ := proposeByModel_spec h
            exact ⟨a.trans hsub, hc p b⟩
      · simp at h
      · simp at h

/-- the run invariant -/
structure Inv (sp : Space) (f : Pos → Bool) (tape0 : Tape) (initL0 : List Pos) (d : DState SmboSt) : Prop where
  tape : d.bst.tape <:+ tape0
  initL : d.bst.initL = initL0
  len : d.posL.length = d.scoreL.length
  grounded : Grounded (evalLog d) d.bst.tr
  cands : Good sp f d.bst.sm.cands

theorem good_filter {sp : Space} {f : Pos → Bool} {l : List Pos} (h : Good sp f l) (pr : Pos → Bool) : Good sp f (l.filter pr) :=
  fun q hq => h q (List.mem_filter.mp hq).1

theorem trackY_cands (sm : SmboState) (score : F) : (sm.trackY score).cands = sm.cands := by
  unfold SmboState.trackY; split <;> rfl

theorem step_inv {cfg : SmboCfg} {sp : Space} {obj : Obj} {c : Call} {f : Pos → Bool} {tape0 : Tape} {initL0 : List Pos}
    (ht : TapeOK sp f tape0) (hg : GridOK sp f tape0) (hi : ∀ q ∈ initL0, InSpace sp q ∧ f q = true)
    (i : Nat) (d d1 : DState SmboSt) (cs cs1 : CState) (p : Pos) (v : Value) (e : Eval)
    (hP : Inv sp f tape0 initL0 d) (sf : StepFacts sp obj c i d d1 cs cs1 p v e)
    (hb : BStep (smboBackend cfg) (i < cs.nInitsNorm) d.bst d1.bst p e.res.score) :
    Inv sp f tape0 initL0 d1 ∧ (InSpace sp p ∧ f p = true) := by
  have hlog := evalLog_append hP.len sf.posL sf.scoreL
  have hlen : d1.posL.length = d1.scoreL.length := by rw [sf.posL, sf.scoreL]; simp [hP.len]
  rcases hb with ⟨_, s1, h1, h2⟩ | ⟨_, s0, s1, h0, h1, h2⟩
  · have h1' : smboInitPos d.bst = .ok (p, s1) := h1
    unfold smboInitPos at h1'
    split at h1'
    · rename_i q hq
      simp only [Except.ok.injEq, Prod.mk.injEq] at h1'
      obtain ⟨rfl, rfl⟩ := h1'
      simp only [smboBackend, Except.ok.injEq] at h2
      have hmem : q ∈ initL0 := by rw [← hP.initL]; exact List.mem_of_getElem? hq
      refine ⟨{ tape := ?_, initL := ?_, len := hlen, grounded := ?_, cands := ?_ }, hi q hmem⟩
      · rw [← h2]; exact hP.tape
      · rw [← h2]; exact hP.initL
      · rw [← h2, hlog]
        have g1 := grounded_trackNewPos hP.grounded q
        obtain ⟨g2, hp2, _⟩ := grounded_setScoreNew g1 e.res.score
        have g3 := DirectRuns.grounded_smboEvalBody g2 e.res.score (by rw [hp2]; simp)
        simpa [smboEvalInit, Tracker.trackNewPos] using grounded_nthTrial g3 _
      · rw [← h2]
        simp only [smboEvalInit, trackY_cands]
        exact hP.cands
    · simp at h1'
  · have hs0 : s0.tape <:+ tape0 ∧ s0.initL = initL0 ∧ Good sp f s0.sm.cands ∧ s0.tr = d.bst.tr := by
      rcases h0 with h0 | h0
      · subst h0; exact ⟨hP.tape, hP.initL, hP.cands, rfl⟩
      · have h0' : smboFinishInit d.bst = .ok s0 := h0
        unfold smboFinishInit at h0'
        cases ha : allPossiblePos d.bst.tape with
        | error e' => rw [ha] at h0'; simp at h0'
        | ok a =>
          rw [ha] at h0'
          simp only [Except.ok.injEq] at h0'
          subst h0'
          obtain ⟨a1, a2⟩ := allPossiblePos_spec (hg.suffix hP.tape) (show allPossiblePos d.bst.tape = .ok (a.1, a.2) from ha)
          exact ⟨a1.trans hP.tape, hP.initL, a2, rfl⟩
    obtain ⟨hst, hsi, hc0, hstr⟩ := hs0
    have h1' : smboIterate cfg s0 = .ok (p, s1) := h1
    unfold smboIterate at h1'
    cases hpp : smboPropose cfg s0 with
    | error e' => rw [hpp] at h1'; simp at h1'
    | ok a =>
      rw [hpp] at h1'
      simp only [Except.ok.injEq, Prod.mk.injEq] at h1'
      obtain ⟨rfl, rfl⟩ := h1'
      obtain ⟨b1, b2, b3⟩ := smboPropose_spec (ht.suffix hst) hc0 (show smboPropose cfg s0 = .ok (a.1, a.2) from hpp)
      have h2 := smboEvaluateE_ok (show smboEvaluateE cfg _ e.res.score = .ok d1.bst from h2)
      refine ⟨{ tape := ?_, initL := ?_, len := hlen, grounded := ?_, cands := ?_ }, b2, b3⟩
      · rw [← h2]; exact b1.trans hst
      · rw [← h2]; exact hsi
      · rw [← h2, hlog]
        have g1 : Grounded (evalLog d) (s0.tr.trackNewPos a.1) := by rw [hstr]; exact grounded_trackNewPos hP.grounded a.1
        obtain ⟨g2, hp2, _⟩ := grounded_setScoreNew g1 e.res.score
        have g3 := DirectRuns.grounded_smboEvalBody g2 e.res.score (by rw [hp2]; simp)
        simpa [smboEvaluate, Tracker.trackNewPos] using grounded_nthTrial g3 _
      · rw [← h2]
        simp only [smboEvaluate, trackY_cands]
        split
        · exact hc0
        · split
          · exact good_filter hc0 _
          · exact hc0

/-- C01 + C02 + C19 for one `search()` call of a complete surrogate-model optimizer -/
theorem smbo_call {cfg : SmboCfg} {sp : Space} {obj : Obj} {c : Call} {f : Pos → Bool} {tape0 : Tape} {initL0 : List Pos}
    {d d' : DState SmboSt} {r : CallResult}
    (ht : TapeOK sp f tape0) (hg : GridOK sp f tape0) (hi : ∀ q ∈ initL0, InSpace sp q ∧ f q = true)
    (hP : Inv sp f tape0 initL0 d) (hn : 0 < c.nIter) (h : searchCall (smboBackend cfg) sp obj c d = .ok (d', r)) :
    Inv sp f tape0 initL0 d' ∧ ∀ p ∈ C04.newPos d d', InSpace sp p ∧ f p = true := by
  obtain ⟨cs, d1, cs1, tr, _, hfin, T, hP1, hQ⟩ :=
    searchCall_inv (P := fun d _ => Inv sp f tape0 initL0 d) (Q := fun t => InSpace sp t.pos ∧ f t.pos = true)
      (fun i d d1 cs cs1 p v e hp sf hb => step_inv ht hg hi i d d1 cs cs1 p v e hp sf hb) h hn (fun _ _ => hP)
  obtain ⟨hrows, hposL, hscoreL, _, _, _, _, _, _, _, hbst, _⟩ := finishSearch_ok hfin
  constructor
  · exact { tape := by rw [hbst]; exact hP1.tape, initL := by rw [hbst]; exact hP1.initL
            len := by rw [hposL, hscoreL]; exact hP1.len
            grounded := by
              have := hP1.grounded
              unfold evalLog at this ⊢
              rw [hposL, hscoreL, hbst]; exact this
            cands := by rw [hbst]; exact hP1.cands }
  · intro p hp
    unfold C04.newPos at hp
    rw [hposL, T.posL] at hp
    simp only [List.drop_left] at hp
    obtain ⟨t, ht', rfl⟩ := List.mem_map.mp hp
    exact hQ t ht'

theorem C01_C02_smbo_positions {cfg : SmboCfg} {sp : Space} {obj : Obj} {c : Call} {f : Pos → Bool} {tape0 : Tape}
    {initL0 : List Pos} {d d' : DState SmboSt} {r : CallResult}
    (ht : TapeOK sp f tape0) (hg : GridOK sp f tape0) (hi : ∀ q ∈ initL0, InSpace sp q ∧ f q = true)
    (hP : Inv sp f tape0 initL0 d) (hn : 0 < c.nIter) (h : searchCall (smboBackend cfg) sp obj c d = .ok (d', r)) :
    ∀ p ∈ C04.newPos d d', InSpace sp p ∧ f p = true :=
  (smbo_call ht hg hi hP hn h).2

theorem C19_smbo_tracker_grounded {cfg : SmboCfg} {sp : Space} {obj : Obj} {c : Call} {f : Pos → Bool} {tape0 : Tape}
    {initL0 : List Pos} {d d' : DState SmboSt} {r : CallResult}
    (ht : TapeOK sp f tape0) (hg : GridOK sp f tape0) (hi : ∀ q ∈ initL0, InSpace sp q ∧ f q = true)
    (hP : Inv sp f tape0 initL0 d) (hn : 0 < c.nIter) (h : searchCall (smboBackend cfg) sp obj c d = .ok (d', r)) :
    Grounded (evalLog d') d'.bst.tr :=
  (smbo_call ht hg hi hP hn h).1.grounded

theorem inv_fresh (sp : Space) (f : Pos → Bool) (nInits : Nat) (initL : List Pos) (tape : Tape) :
    Inv sp f tape initL ({ nInits := nInits, bst := { initL := initL, tape := tape } } : DState SmboSt) :=
  { tape := List.suffix_refl _, initL := rfl, len := rfl, grounded := by simpa [evalLog] using grounded_fresh
    cands := by intro q hq; simp at hq }

end GFO.SmboPosRuns
