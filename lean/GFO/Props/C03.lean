/-
  C03 — search(n_iter=N) performs exactly N steps; step accounting is exact.

  All theorems are about `GFO.searchCall` / `GFO.searchHistory` (model of `Search.search`), for EVERY backend
  state machine `b : Backend σ`, every objective oracle, every search space and every history of calls.
  "Completes without raising" is split off: `C03.search_total` (below) needs a backend that does not raise and
  emits in-space positions; the per-optimizer part of that hypothesis is what C01/C15 and the backend models carry.
-/
import GFO.Proofs.Driver
namespace GFO.C03
open GFO
variable {σ : Type}

/-- a freshly constructed optimizer -/
def fresh (nInits : Nat) (bst : σ) : DState σ := { nInits := nInits, bst := bst }

theorem fresh_inv (n : Nat) (bst : σ) : DInv (fresh n bst) :=
  { counters := rfl, posL := rfl, scoreL := rfl, evalT := rfl, iterT := rfl, inits := by simp [fresh] }

/-- without stopping criteria a call appends exactly `n_iter` rows -/
theorem rows_exact {b : Backend σ} {sp : Space} {obj : Obj} {c : Call} {d d' : DState σ} {r : CallResult}
    (h : searchCall b sp obj c d = .ok (d', r)) (hc : NoCriterion c) :
    d'.rows.length = d.rows.length + c.nIter := by
  have f := searchCall_frame h
  rw [f.rows, f.stepsExact hc]

/-- with stopping criteria it appends at most `n_iter` rows; earlier rows are never touched -/
theorem rows_le {b : Backend σ} {sp : Space} {obj : Obj} {c : Call} {d d' : DState σ} {r : CallResult}
    (h : searchCall b sp obj c d = .ok (d', r)) :
    d'.rows.length ≤ d.rows.length + c.nIter ∧ ∃ new, d'.rows = d.rows ++ new := by
  have f := searchCall_frame h
  exact ⟨by rw [f.rows]; have := f.stepsLe; omega, f.rowsPrefix⟩

/-- the accounting invariant survives every call -/
theorem call_preserves_inv {b : Backend σ} {sp : Space} {obj : Obj} {c : Call} {d d' : DState σ} {r : CallResult}
    (h : searchCall b sp obj c d = .ok (d', r)) (inv : DInv d) : DInv d' :=
  (searchCall_frame h).inv inv

/-- … hence every history of `search()` calls on one optimizer: rows accumulate, initial positions are consumed
    exactly once, the two counters add up to the row count, and there is one eval/iter time per step -/
theorem history_accounting {b : Backend σ} {sp : Space} {obj : Obj} :
    ∀ (calls : List Call) (d d' : DState σ) (rs : List CallResult),
    searchHistory b sp obj calls d = .ok (d', rs) → DInv d →
    DInv d' ∧ rs.length = calls.length ∧
    d'.rows.length = d.rows.length + (rs.map (·.steps)).sum ∧
    ((∀ c ∈ calls, NoCriterion c) → d'.rows.length = d.rows.length + (calls.map (·.nIter)).sum) ∧
    d'.nInits = d.nInits := by
  intro calls
  induction calls with
  | nil =>
    intro d d' rs h inv
    simp only [searchHistory, pure, Except.pure, Except.ok.injEq, Prod.mk.injEq] at h
    obtain ⟨hd, hr⟩ := h
    subst hd; subst hr
    simp [inv]
  | cons c cs ih =>
    intro d d' rs h inv
    simp only [searchHistory, bind, Except.bind, pure, Except.pure] at h
    split at h
    · simp at h
    · rename_i x hx
      obtain ⟨d1, r⟩ := x
      simp only at h
      split at h
      · simp at h
      · rename_i y hy
        obtain ⟨d2, rs'⟩ := y
        simp only [Except.ok.injEq, Prod.mk.injEq] at h
        obtain ⟨hd, hr⟩ := h
        subst hd; subst hr
        have f := searchCall_frame hx
        have inv1 := f.inv inv
        obtain ⟨inv2, hlen, hrows, hex, hn⟩ := ih d1 d2 rs' hy inv1
        refine ⟨inv2, by simp [hlen], ?_, ?_, by rw [hn, f.nInits]⟩
        · rw [hrows, f.rows]; simp; omega
        · intro hall
          have hc : NoCriterion c := hall c (by simp)
          rw [hex (fun c' hc' => hall c' (by simp [hc'])), f.rows, f.stepsExact hc]; simp; omega

/-- the headline statement for a freshly constructed optimizer -/
theorem accounting_from_fresh {b : Backend σ} {sp : Space} {obj : Obj} (nInits : Nat) (bst : σ)
    (calls : List Call) (d' : DState σ) (rs : List CallResult)
    (h : searchHistory b sp obj calls (fresh nInits bst) = .ok (d', rs)) :
    d'.nInitTotal + d'.nIterTotal = d'.rows.length ∧
    d'.nInitTotal = min nInits d'.rows.length ∧
    d'.evalT.length = d'.rows.length ∧ d'.iterT.length = d'.rows.length ∧
    d'.posL.length = d'.rows.length ∧ d'.scoreL.length = d'.rows.length ∧
    d'.rows.length = (rs.map (·.steps)).sum ∧
    ((∀ c ∈ calls, NoCriterion c) → d'.rows.length = (calls.map (·.nIter)).sum) := by
  obtain ⟨inv, _, hrows, hex, hn⟩ := history_accounting calls _ d' rs h (fresh_inv nInits bst)
  have hn' : d'.nInits = nInits := by rw [hn]; rfl
  refine ⟨inv.counters, by rw [← hn']; exact inv.inits, inv.evalT, inv.iterT, inv.posL, inv.scoreL, ?_, ?_⟩
  · simpa [fresh] using hrows
  · intro hall; simpa [fresh] using hex hall

/-- within one call the first `min steps (n_inits - n_init_total)` steps are initialisation steps -/
theorem inits_consumed {b : Backend σ} {sp : Space} {obj : Obj} {c : Call} {d d' : DState σ} {r : CallResult}
    (h : searchCall b sp obj c d = .ok (d', r)) :
    d'.nInitTotal = d.nInitTotal + min r.steps (d.nInits - d.nInitTotal) :=
  (searchCall_frame h).nInitTotal

end GFO.C03
