/-
  Whole-run theorems for the complete model of `PowellsMethod` (GFO.Model.Powell), through the real driver model, for every
  configuration, objective, call, prior state and tape:

    C01_C02_powell_positions         every position a call evaluates is a feasible position of the space
    C19_powell_outer_grounded        the OUTER object's tracked pairs and valid lists are really evaluated pairs
    C15_powell_new_dim_uses_current  (after fix) with no valid score `new_dim` takes the current position
    C15_powell_former_finding_fixed  … and the run through the whole driver that used to end in IndexError goes on (kernel-evaluated)
    C19_powell_inner_finding_witness the KNOWN FINDING (C19) as a theorem: a run, evaluated by the kernel, after which the
                                     inner climber's tracked best pair is (its own proposal, the score of the repaired
                                     position) - a pair that was never evaluated
-/
import GFO.Model.Powell
import GFO.Props.PatternRuns
namespace GFO.PowellRuns
open GFO GFO.C01 GFO.C19 GFO.LocalRuns GFO.PopRuns GFO.EvoRuns

/-- the translation of an inner position lies in the space when `powells_pos` does -/
theorem toOuter_inSpace {sp : Space} {dim : Nat} {pp inner pos : Pos} (hpp : InSpace sp pp)
    (h : toOuter sp.sizes dim pp inner = .ok pos) : InSpace sp pos := by
  unfold toOuter at h
  obtain ⟨hl, hg⟩ := mapM_except_spec _ _ _ h
  unfold InSpace
  apply inBox_of_get
  · rw [hl]; simp [inBox_length _ _ hpp]
  · intro k x hk
    have hklt : k < pp.length := by
      have : k < pos.length := getElemOpt_lt hk
      rw [hl] at this; simpa using this
    obtain ⟨b, hb1, hb2⟩ := hg k k (by simp [hklt])
    rw [hk] at hb1
    simp only [Option.some.injEq] at hb1
    subst hb1
    split at hb2
    · simp at hb2
    · rename_i y hy
      split at hb2
      · rename_i hkd
        split at hb2
        · rename_i hr
          simp only [Except.ok.injEq] at hb2
          subst hb2
          have hklt' : k < sp.sizes.length := by rw [← inBox_length _ _ hpp]; exact hklt
          refine ⟨sp.sizes[k], List.getElem?_eq_getElem hklt', hr.1, ?_⟩
          have : sp.sizes.getD k 0 = sp.sizes[k] := by simp [List.getD, List.getElem?_eq_getElem hklt']
          rw [this] at hr; exact hr.2
        · simp at hb2
      · split at hb2
        · simp only [Except.ok.injEq] at hb2
          subst hb2
          have : pp.getD k 0 = pp[k] := by simp [List.getD, List.getElem?_eq_getElem hklt]
          rw [this]
          exact inBox_get _ _ hpp k pp[k] (List.getElem?_eq_getElem hklt)
        · simp at hb2

/-- the run invariant -/
structure Inv (sp : Space) (tape0 : Tape) (initL0 : List Pos) (d : DState PowSt) : Prop where
  tape : d.bst.tape <:+ tape0
  initL : d.bst.initL = initL0
  len : d.posL.length = d.scoreL.length
  grounded : Grounded (evalLog d) d.bst.tr
  inSp : ∀ p ∈ d.posL, InSpace sp p
  ppIn : d.bst.hc.isSome = true → InSpace sp d.bst.powellsPos

theorem powNewDim_spec {cfg : PowCfg} {sp : Space} {s s' : PowSt} {log : Log} (g : Grounded log s.tr)
    (hlog : ∀ q sc, (some q, sc) ∈ log → InSpace sp q) (h : powNewDim cfg s = .ok s') :
    s'.tape <:+ s.tape ∧ s'.tr = s.tr ∧ s'.initL = s.initL ∧ s'.hc.isSome = true ∧ InSpace sp s'.powellsPos := by
  unfold powNewDim at h
  simp only at h
  cases htape : s.tape with
  | nil => rw [htape] at h; simp at h
  | cons d0 rest0 =>
    rw [htape] at h
    cases d0 with
    | sorted perm =>
      simp only at h
      split at h
      · simp at h
      · cases hb : powBest s perm with
        | error e => rw [hb] at h; simp at h
        | ok pp =>
          rw [hb] at h
          simp only at h
          have hpp : InSpace sp pp := by
            unfold powBest at hb
            cases hh : perm.head? with
            | none =>
              rw [hh] at hb
              simp only at hb
              cases hc : s.tr.posCurrent with
              | none => rw [hc] at hb; simp at hb
              | some q =>
                rw [hc] at hb
                simp only [Except.ok.injEq] at hb
                subst hb
                rcases g.current with hcur | hcur
                · rw [hc] at hcur; simp at hcur
                · rw [hc] at hcur; exact hlog q _ hcur
            | some i0 =>
              rw [hh] at hb
              simp only at hb
              cases hp : s.tr.positionsValid[i0]? with
              | none => rw [hp] at hb; simp at hb
              | some o =>
                rw [hp] at hb
                cases o with
                | none => simp at hb
                | some q =>
                  simp only [Except.ok.injEq] at hb
                  subst hb
                  -- `q` is a valid-list entry, hence an evaluated position
                  have hlt : i0 < s.tr.positionsValid.length := getElemOpt_lt hp
                  have hlt2 : i0 < s.tr.scoresValid.length := by rw [← g.validLen]; exact hlt
                  have hz : (some q, s.tr.scoresValid[i0]) ∈ s.tr.positionsValid.zip s.tr.scoresValid := by
                    apply zip_getElem_mem _ _ i0 _ _ hp (List.getElem?_eq_getElem hlt2)
                  exact hlog q _ (g.valid _ hz)
          cases hr : rest0 with
          | nil => rw [hr] at h; simp at h
          | cons d1 rest =>
            rw [hr] at h
            cases d1 with
            | inits l =>
              simp only [Except.ok.injEq] at h
              subst h
              exact ⟨(List.suffix_cons _ _).trans (List.suffix_cons _ _), rfl, rfl, rfl, hpp⟩
            | unif _ => simp at h
            | climb _ _ => simp at h
            | dist _ _ => simp at h
            | rnd _ => simp at h
            | feas _ _ => simp at h
            | accept _ _ => simp at h
            | part _ _ => simp at h
            | spiral _ => simp at h
            | sorted _ => simp at h
            | int _ => simp at h
            | npunif _ => simp at h
            | choice _ => simp at h
            | mutant _ => simp at h
            | parents _ => simp at h
            | vec _ => simp at h
    | unif _ => simp at h
    | climb _ _ => simp at h
    | dist _ _ => simp at h
    | rnd _ => simp at h
    | feas _ _ => simp at h
    | accept _ _ => simp at h
    | part _ _ => simp at h
    | spiral _ => simp at h
    | int _ => simp at h
    | npunif _ => simp at h
    | choice _ => simp at h
    | mutant _ => simp at h
    | parents _ => simp at h
    | inits _ => simp at h
    | vec _ => simp at h

/-- what the configuration must say about the space -/
structure Fits (cfg : PowCfg) (sp : Space) : Prop where
  geo : cfg.geo = sp.geo
  sizes : cfg.sizes = sp.sizes
  ok : SpaceOK sp

theorem powPropose_spec {cfg : PowCfg} {sp : Space} {f : Pos → Bool} (hf : Fits cfg sp) {s s' : PowSt} {p : Pos} {log : Log}
    (ht : TapeOK sp f s.tape) (g : Grounded log s.tr) (hlog : ∀ q sc, (some q, sc) ∈ log → InSpace sp q)
    (hpp : s.hc.isSome = true → InSpace sp s.powellsPos)
    (h : powPropose cfg s = .ok (p, s')) :
    s'.tape <:+ s.tape ∧ s'.tr = s.tr ∧ s'.initL = s.initL ∧ InSpace sp p ∧ f p = true ∧
    (s'.hc.isSome = true → InSpace sp s'.powellsPos) := by
  unfold powPropose at h
  split at h
  · simp at h
  · simp only at h
    cases h1 : (if ({ s with nthIter := s.nthIter + 1, nthIterCurDim := s.nthIterCurDim + 1 } : PowSt).nthIter % (cfg.itersPDim : Int) = 0
        then powNewDim cfg { s with nthIter := s.nthIter + 1, nthIterCurDim := s.nthIterCurDim + 1 }
        else Except.ok { s with nthIter := s.nthIter + 1, nthIterCurDim := s.nthIterCurDim + 1 }) with
    | error e => rw [h1] at h; simp at h
    | ok s2 =>
      rw [h1] at h
      simp only at h
      have hs2 : s2.tape <:+ s.tape ∧ s2.tr = s.tr ∧ s2.initL = s.initL ∧ (s2.hc.isSome = true → InSpace sp s2.powellsPos) := by
        split at h1
        · obtain ⟨a, b, c, d, e⟩ := powNewDim_spec (s := { s with nthIter := s.nthIter + 1, nthIterCurDim := s.nthIterCurDim + 1 }) g hlog h1
          exact ⟨a, b, c, fun _ => e⟩
        · simp only [Except.ok.injEq] at h1; subst h1; exact ⟨List.suffix_refl _, rfl, rfl, hpp⟩
      obtain ⟨hst2, htr2, hil2, hpp2⟩ := hs2
      cases hhc : s2.hc with
      | none => simp [hhc] at h
      | some hcl =>
        rw [hhc] at h
        simp only at h
        have hppin : InSpace sp s2.powellsPos := hpp2 (by rw [hhc]; rfl)
        cases h2 : (if s2.nthIterCurDim < 5 then localInitPos { hcl with tape := s2.tape }
            else localIterate (innerCfg cfg s2.curDim.toNat) { hcl with tape := s2.tape }) with
        | error e => rw [h2] at h; simp at h
        | ok a =>
          rw [h2] at h
          simp only at h
          have hat : a.2.tape <:+ s2.tape := by
            split at h2
            · obtain ⟨_, ht', _⟩ := localInitPos_spec (show localInitPos _ = .ok (a.1, a.2) from h2)
              rw [ht']
            · obtain ⟨hs', _⟩ := localIterate_spec (show localIterate _ _ = .ok (a.1, a.2) from h2)
              exact hs'
          cases h3 : toOuter cfg.sizes s2.curDim.toNat s2.powellsPos a.1 with
          | error e => rw [h3] at h; simp at h
          | ok pos =>
            rw [h3] at h
            simp only at h
            have hposin : InSpace sp pos := by rw [hf.sizes] at h3; exact toOuter_inSpace hppin h3
            have hst3 : a.2.tape <:+ s.tape := hat.trans hst2
            cases h4 : askFeas pos a.2.tape with
            | error e => rw [h4] at h; simp at h
            | ok b =>
              rw [h4] at h
              simp only at h
              have e4 := askFeas_spec (show askFeas pos a.2.tape = .ok (b.1, b.2) from h4)
              have hst4 : b.2 <:+ s.tape := (by rw [e4]; exact List.suffix_cons _ _ : b.2 <:+ a.2.tape).trans hst3
              by_cases hok : b.1 = true
              · simp only [hok, if_true, Except.ok.injEq, Prod.mk.injEq] at h
                obtain ⟨rfl, rfl⟩ := h
                have hfe : f pos = true := by
                  have := (ht.suffix hst3).feas pos b.1 (by rw [e4]; simp); rw [← this]; exact hok
                exact ⟨hst4, htr2, hil2, hposin, hfe, fun _ => hppin⟩
              · simp only [hok, Bool.false_eq_true, if_false] at h
                cases h5 : moveClimb cfg.geo (some pos) (some 1) s.tape.length b.2 with
                | error e => rw [h5] at h; simp at h
                | ok c =>
                  rw [h5] at h
                  simp only [Except.ok.injEq, Prod.mk.injEq] at h
                  obtain ⟨rfl, rfl⟩ := h
                  obtain ⟨a5, b5, c5⟩ := moveClimb_good hf.geo hf.ok (ht.suffix hst4) h5
                  exact ⟨a5.trans hst4, htr2, hil2, b5, c5, fun _ => hppin⟩

theorem evalLog_in {sp : Space} {d : DState PowSt} (h : ∀ p ∈ d.posL, InSpace sp p) :
    ∀ q sc, (some q, sc) ∈ evalLog d → InSpace sp q := fun q _ hm => h q (evalLog_pos hm)

theorem powIterate_spec {cfg : PowCfg} {sp : Space} {f : Pos → Bool} (hf : Fits cfg sp) {s s' : PowSt} {p : Pos} {log : Log}
    (ht : TapeOK sp f s.tape) (g : Grounded log s.tr) (hlog : ∀ q sc, (some q, sc) ∈ log → InSpace sp q)
    (hpp : s.hc.isSome = true → InSpace sp s.powellsPos) (h : powIterate cfg s = .ok (p, s')) :
    s'.tape <:+ s.tape ∧ s'.tr = s.tr.trackNewPos p ∧ s'.initL = s.initL ∧ InSpace sp p ∧ f p = true ∧
    (s'.hc.isSome = true → InSpace sp s'.powellsPos) := by
  unfold powIterate at h
  cases htape : s.tape with
  | nil => rw [htape] at h; simp at h
  | cons d0 rest =>
    rw [htape] at h
    rw [htape] at ht
    cases d0 with
    | unif x =>
      simp only at h
      have hs0 : rest <:+ Draw.unif x :: rest := List.suffix_cons _ _
      split at h
      · cases hm : moveRandomLoop rest with
        | error e => rw [hm] at h; simp at h
        | ok a =>
          rw [hm] at h
          simp only [Except.ok.injEq, Prod.mk.injEq] at h
          obtain ⟨rfl, rfl⟩ := h
          obtain ⟨a1, b1, c1⟩ := moveRandomLoop_spec (show moveRandomLoop rest = .ok (a.1, a.2) from hm)
          have ht0 := ht.suffix hs0
          exact ⟨a1.trans hs0, rfl, rfl, ht0.rnd _ b1, (ht0.feas _ true c1).symm, hpp⟩
      · cases hp : powPropose cfg { s with tape := rest } with
        | error e => rw [hp] at h; simp at h
        | ok a =>
          rw [hp] at h
          simp only [Except.ok.injEq, Prod.mk.injEq] at h
          obtain ⟨rfl, rfl⟩ := h
          obtain ⟨a1, b1, c1, d1, e1, f1⟩ := powPropose_spec hf (s := { s with tape := rest }) (ht.suffix hs0) g hlog hpp
            (show powPropose cfg { s with tape := rest } = .ok (a.1, a.2) from hp)
          exact ⟨a1.trans hs0, by simp only; rw [b1], c1, d1, e1, f1⟩
    | climb _ _ => simp at h
    | dist _ _ => simp at h
    | rnd _ => simp at h
    | feas _ _ => simp at h
    | accept _ _ => simp at h
    | part _ _ => simp at h
    | spiral _ => simp at h
    | sorted _ => simp at h
    | int _ => simp at h
    | npunif _ => simp at h
    | choice _ => simp at h
    | mutant _ => simp at h
    | parents _ => simp at h
    | inits _ => simp at h
    | vec _ => simp at h

theorem powEvaluate_spec {cfg : PowCfg} {s s' : PowSt} {score : F} {log : Log} (g : Grounded log s.tr)
    (h : powEvaluate cfg s score = .ok s') :
    s'.tape = s.tape ∧ s'.initL = s.initL ∧ s'.powellsPos = s.powellsPos ∧ (s'.hc.isSome = s.hc.isSome) ∧
    Grounded (log ++ [(s.tr.posNew, score)]) s'.tr := by
  obtain ⟨g1, hp, _⟩ := grounded_setScoreNew g score
  have g2 := grounded_nthTrial (grounded_baseEvaluate g1 score (by rw [hp]; simp))
    (((s.tr.setScoreNew score).baseEvaluate score).nthTrial + 1)
  unfold powEvaluate at h
  simp only at h
  split at h
  · simp only [Except.ok.injEq] at h; subst h; exact ⟨rfl, rfl, rfl, rfl, g2⟩
  · cases hh : s.hc with
    | none => rw [hh] at h; simp at h
    | some hcl =>
      rw [hh] at h
      simp only [Except.ok.injEq] at h
      subst h
      exact ⟨rfl, rfl, rfl, by simp [hh], g2⟩

/-- one driver step keeps the invariant and emits a feasible position of the space -/
theorem step_inv {cfg : PowCfg} {sp : Space} {obj : Obj} {c : Call} {f : Pos → Bool} {tape0 : Tape} {initL0 : List Pos}
    (hf : Fits cfg sp) (ht : TapeOK sp f tape0) (hi : ∀ q ∈ initL0, InSpace sp q ∧ f q = true)
    (i : Nat) (d d1 : DState PowSt) (cs cs1 : CState) (p : Pos) (v : Value) (e : Eval)
    (hP : Inv sp tape0 initL0 d) (sf : StepFacts sp obj c i d d1 cs cs1 p v e)
    (hb : BStep (powBackend cfg) (i < cs.nInitsNorm) d.bst d1.bst p e.res.score) :
    Inv sp tape0 initL0 d1 ∧ (InSpace sp p ∧ f p = true) := by
  have hlog := evalLog_append hP.len sf.posL sf.scoreL
  have hlen : d1.posL.length = d1.scoreL.length := by rw [sf.posL, sf.scoreL]; simp [hP.len]
  have hinSp : InSpace sp p → ∀ q ∈ d1.posL, InSpace sp q := by
    intro hp q hq
    rw [sf.posL] at hq
    rcases List.mem_append.mp hq with h | h
    · exact hP.inSp q h
    · simp at h; subst h; exact hp
  rcases hb with ⟨_, s1, h1, h2⟩ | ⟨_, s0, s1, h0, h1, h2⟩
  · have h1' : powInitPos d.bst = .ok (p, s1) := h1
    unfold powInitPos at h1'
    split at h1'
    · rename_i q hq
      simp only [Except.ok.injEq, Prod.mk.injEq] at h1'
      obtain ⟨rfl, rfl⟩ := h1'
      simp only [powBackend, Except.ok.injEq] at h2
      have hmem : q ∈ initL0 := by rw [← hP.initL]; exact List.mem_of_getElem? hq
      have hgood := hi q hmem
      refine ⟨{ tape := ?_, initL := ?_, len := hlen, grounded := ?_, inSp := hinSp hgood.1, ppIn := ?_ }, hgood⟩
      · rw [← h2]; exact hP.tape
      · rw [← h2]; exact hP.initL
      · rw [← h2, hlog]
        have g1 := grounded_trackNewPos hP.grounded q
        have := grounded_evaluateInit g1 e.res.score
        simpa [Tracker.trackNewPos] using this
      · rw [← h2]; exact hP.ppIn
    · simp at h1'
  · have hs0 : s0.tape = d.bst.tape ∧ s0.initL = d.bst.initL ∧ s0.tr = d.bst.tr ∧ s0.hc = d.bst.hc ∧ s0.powellsPos = d.bst.powellsPos := by
      rcases h0 with h0 | h0
      · subst h0; exact ⟨rfl, rfl, rfl, rfl, rfl⟩
      · simp only [powBackend, Except.ok.injEq] at h0; subst h0; exact ⟨rfl, rfl, rfl, rfl, rfl⟩
    obtain ⟨e1, e2, e3, e4, e5⟩ := hs0
    have g0 : Grounded (evalLog d) s0.tr := by rw [e3]; exact hP.grounded
    obtain ⟨a1, b1, c1, d1', f1, g1'⟩ := powIterate_spec hf (s := s0) (by rw [e1]; exact ht.suffix hP.tape) g0 (evalLog_in hP.inSp)
      (by rw [e4, e5]; exact hP.ppIn) (show powIterate cfg s0 = .ok (p, s1) from h1)
    have g1 : Grounded (evalLog d) s1.tr := by rw [b1]; exact grounded_trackNewPos g0 p
    obtain ⟨a2, b2, c2, d2, e2'⟩ := powEvaluate_spec g1 (show powEvaluate cfg s1 e.res.score = .ok d1.bst from h2)
    refine ⟨{ tape := ?_, initL := ?_, len := hlen, grounded := ?_, inSp := hinSp d1', ppIn := ?_ }, d1', f1⟩
    · rw [a2]; exact (a1.trans (by rw [e1])).trans hP.tape
    · rw [b2, c1, e2]; exact hP.initL
    · rw [hlog]
      have : s1.tr.posNew = some p := by rw [b1]; rfl
      rw [this] at e2'
      exact e2'
    · rw [d2, c2]; exact g1'

/-- C01 + C02 + C19 (outer object) for one `search()` call of the complete Powell's method -/
theorem powell_call {cfg : PowCfg} {sp : Space} {obj : Obj} {c : Call} {f : Pos → Bool} {tape0 : Tape} {initL0 : List Pos}
    {d d' : DState PowSt} {r : CallResult}
    (hf : Fits cfg sp) (ht : TapeOK sp f tape0) (hi : ∀ q ∈ initL0, InSpace sp q ∧ f q = true)
    (hP : Inv sp tape0 initL0 d) (hn : 0 < c.nIter) (h : searchCall (powBackend cfg) sp obj c d = .ok (d', r)) :
    Inv sp tape0 initL0 d' ∧ ∀ p ∈ C04.newPos d d', InSpace sp p ∧ f p = true := by
  obtain ⟨cs, d1, cs1, tr, _, hfin, T, hP1, hQ⟩ :=
    searchCall_inv (P := fun d _ => Inv sp tape0 initL0 d) (Q := fun t => InSpace sp t.pos ∧ f t.pos = true)
      (fun i d d1 cs cs1 p v e hp sf hb => step_inv hf ht hi i d d1 cs cs1 p v e hp sf hb) h hn (fun _ _ => hP)
  obtain ⟨hrows, hposL, hscoreL, _, _, _, _, _, _, _, hbst, _⟩ := finishSearch_ok hfin
  constructor
  · exact { tape := by rw [hbst]; exact hP1.tape, initL := by rw [hbst]; exact hP1.initL
            len := by rw [hposL, hscoreL]; exact hP1.len
            grounded := by
              have := hP1.grounded
              unfold evalLog at this ⊢
              rw [hposL, hscoreL, hbst]; exact this
            inSp := by rw [hposL]; exact hP1.inSp
            ppIn := by rw [hbst]; exact hP1.ppIn }
  · intro p hp
    unfold C04.newPos at hp
    rw [hposL, T.posL] at hp
    simp only [List.drop_left] at hp
    obtain ⟨t, ht', rfl⟩ := List.mem_map.mp hp
    exact hQ t ht'

theorem C01_C02_powell_positions {cfg : PowCfg} {sp : Space} {obj : Obj} {c : Call} {f : Pos → Bool} {tape0 : Tape}
    {initL0 : List Pos} {d d' : DState PowSt} {r : CallResult}
    (hf : Fits cfg sp) (ht : TapeOK sp f tape0) (hi : ∀ q ∈ initL0, InSpace sp q ∧ f q = true)
    (hP : Inv sp tape0 initL0 d) (hn : 0 < c.nIter) (h : searchCall (powBackend cfg) sp obj c d = .ok (d', r)) :
    ∀ p ∈ C04.newPos d d', InSpace sp p ∧ f p = true :=
  (powell_call hf ht hi hP hn h).2

theorem C19_powell_outer_grounded {cfg : PowCfg} {sp : Space} {obj : Obj} {c : Call} {f : Pos → Bool} {tape0 : Tape}
    {initL0 : List Pos} {d d' : DState PowSt} {r : CallResult}
    (hf : Fits cfg sp) (ht : TapeOK sp f tape0) (hi : ∀ q ∈ initL0, InSpace sp q ∧ f q = true)
    (hP : Inv sp tape0 initL0 d) (hn : 0 < c.nIter) (h : searchCall (powBackend cfg) sp obj c d = .ok (d', r)) :
    Grounded (evalLog d') d'.bst.tr :=
  (powell_call hf ht hi hP hn h).1.grounded

theorem inv_fresh (sp : Space) (nInits : Nat) (initL : List Pos) (tape : Tape) :
    Inv sp tape initL ({ nInits := nInits, bst := { initL := initL, tape := tape } } : DState PowSt) :=
  { tape := List.suffix_refl _, initL := rfl, len := rfl, grounded := by simpa [evalLog] using grounded_fresh
    inSp := by intro q hq; simp at hq, ppIn := by intro h; simp at h }

/-! ### the two known findings, as theorems about the model -/

/-- C15 (after fix): with no valid score so far `new_dim` searches along the line through the CURRENT position instead of raising -/
theorem C15_powell_new_dim_uses_current (s : PowSt) (pp : Pos) (hc : s.tr.posCurrent = some pp) : powBest s [] = .ok pp := by
  unfold powBest
  simp [hc]

def exSpace : Space := { names := ["x"], dims := [[0, 1, 2, 3, 4]] }
def exCfg : PowCfg := { itersPDim := 10, nNeighbours := 3, randRestP := 0, sizes := [5], geo := exSpace.geo }

/-- the former C15 finding through the whole driver: one start-up position scored nan, then the first iteration - which used to raise
    IndexError in `new_dim` - builds the inner climber along the line through the current position [2] and evaluates its first point -/
def nanObj : Obj := fun _ _ _ => ({ score := .nan, metrics := [] }, 0)
def exD15 : DState PowSt :=
  { nInits := 1, bst := { initL := [[2]], tape := [.unif (1/2), .sorted [], .inits [[4], [0], [1], [2], [3]], .feas [4] true] } }

theorem C15_powell_former_finding_fixed :
    (searchCall (powBackend exCfg) exSpace nanObj { nIter := 2, memory := .off } exD15).map (fun x => (x.1.posL, x.1.bst.tape.length))
      = .ok ([[2], [4]], 0) := by
  decide +kernel

/-- C19 witness: constraint `x ≠ 4`. Start-up [2] (score 2). First iteration: `new_dim` builds the inner climber with
    start-up list [[4], …]; its `init_pos` proposes [4]; the outer check fails; the outer `move_climb` repairs to [3], which
    is evaluated (score 3) - and the inner climber records (its own [4], 3) as its best and current pair. -/
def idObj : Obj := fun _ _ v => ({ score := .fin (v.getD 0 0), metrics := [] }, 0)
def exD19 : DState PowSt :=
  { nInits := 1, bst := { initL := [[2]], tape :=
      [.unif (1/2), .sorted [0], .inits [[4], [0], [1], [2], [3]], .feas [4] false,
       .climb [4] 1, .dist [4] [.fin 3], .feas [3] true] } }

theorem C19_powell_inner_finding_witness :
    (searchCall (powBackend exCfg) exSpace idObj { nIter := 2, memory := .off } exD19).map
      (fun x => (x.1.posL, x.1.scoreL, x.1.bst.hc.map (fun h => (h.tr.posBest, h.tr.scoreBest)))) =
    .ok ([[2], [3]], [.fin 2, .fin 3], some (some [4], .fin 3)) := by
  decide +kernel

end GFO.PowellRuns
