/-
  C17 for `DirectAlgorithm`: `select_subspace` (GFO.Model.Direct.selectSub) returns an index of the list whose Lipschitz
  bound dominates the bound of every sub-space of the list (nan-free bounds), and `select_next_subspace` prefers a sub-space
  that has no score yet: nothing is split before every centre has been evaluated.
-/
import GFO.Props.DirectRuns
import GFO.Props.SmboRuns
namespace GFO.DirectRuns
open GFO GFO.SmboRuns

theorem F_not_gt_ge {a b : F} (ha : a.isNan = false) (hb : b.isNan = false) (h : F.gt a b = false) : F.ge b a = true := by
  cases a <;> cases b <;> simp_all [F.gt, F.ge, F.lt, F.le, F.isNan]

theorem F_gt_ge {a b : F} (h : F.gt a b = true) : F.ge a b = true := by
  cases a <;> cases b <;> simp_all [F.gt, F.ge, F.lt, F.le] <;> grind

theorem F_gt_notNan {a b : F} (h : F.gt a b = true) : a.isNan = false := by
  cases a <;> cases b <;> simp_all [F.gt, F.lt, F.isNan]

/-- the scan of `select_subspace`: the running maximum dominates what has been scanned and is attained at `best` -/
theorem selectSub_go_spec (all : List Sub) : ∀ (rest : List Sub) (k : Nat) (mx : F) (best res : Option Nat) (done : List Sub),
    all = done ++ rest → k = done.length → mx.isNan = false →
    (∀ sb ∈ done, sb.bound.isNan = false → F.ge mx sb.bound = true) →
    (∀ j, best = some j → ∃ sb, all[j]? = some sb ∧ sb.bound = mx) →
    (best = none → mx = .ninf) →
    selectSub.go rest k mx best = res →
    ∃ mx', mx'.isNan = false ∧ (∀ sb ∈ all, sb.bound.isNan = false → F.ge mx' sb.bound = true) ∧
      (∀ j, res = some j → ∃ sb, all[j]? = some sb ∧ sb.bound = mx') ∧ (res = none → mx' = .ninf) := by
  intro rest
  induction rest with
  | nil =>
    intro k mx best res done hall _ hmx hdom hbest hnone h
    simp only [selectSub.go] at h
    subst h
    rw [List.append_nil] at hall
    subst hall
    exact ⟨mx, hmx, hdom, hbest, hnone⟩
  | cons s ss ih =>
    intro k mx best res done hall hk hmx hdom hbest hnone h
    unfold selectSub.go at h
    have hall' : all = (done ++ [s]) ++ ss := by rw [hall]; simp
    have hk' : k + 1 = (done ++ [s]).length := by simp [hk]
    by_cases hg : F.gt s.bound mx = true
    · rw [if_pos hg] at h
      have hsn := F_gt_notNan hg
      refine ih (k + 1) s.bound (some k) res (done ++ [s]) hall' hk' hsn ?_ ?_ (by simp) h
      · intro sb hsb hn
        rcases List.mem_append.mp hsb with hm | hm
        · exact F_ge_trans hsn hmx hn (F_gt_ge hg) (hdom sb hm hn)
        · simp at hm; subst hm; exact F_ge_refl hsn
      · intro j hj
        simp only [Option.some.injEq] at hj
        subst hj
        exact ⟨s, by rw [hall, hk]; simp, rfl⟩
    · rw [if_neg hg] at h
      refine ih (k + 1) mx best res (done ++ [s]) hall' hk' hmx ?_ hbest hnone h
      intro sb hsb hn
      rcases List.mem_append.mp hsb with hm | hm
      · exact hdom sb hm hn
      · simp at hm; subst hm
        exact F_not_gt_ge hn hmx (by simpa using hg)

/-- C17, DIRECT: the selected sub-space has a maximal Lipschitz bound -/
theorem C17_direct_select_is_argmax {subs : List Sub} {j : Nat} (h : selectSub subs = some j) :
    ∃ sel, subs[j]? = some sel ∧ ∀ sb ∈ subs, sel.bound.isNan = false → sb.bound.isNan = false → F.ge sel.bound sb.bound = true := by
  unfold selectSub at h
  obtain ⟨mx', hmx, hdom, hres, hnone⟩ := selectSub_go_spec subs subs 0 .ninf none (selectSub.go subs 0 .ninf none) []
    (by simp) rfl rfl (by intro sb hsb; simp at hsb) (by intro j hj; simp at hj) (fun _ => rfl) rfl
  cases hgo : selectSub.go subs 0 .ninf none with
  | some k =>
    rw [hgo] at h hres
    simp only [Option.some.injEq] at h
    subst h
    obtain ⟨sel, hs1, hs2⟩ := hres k rfl
    exact ⟨sel, hs1, fun sb hsb _ hn => by rw [hs2]; exact hdom sb hsb hn⟩
  | none =>
    rw [hgo] at h hnone
    simp only at h
    split at h
    · simp at h
    · simp only [Option.some.injEq] at h
      subst h
      have hmx' := hnone rfl
      subst hmx'
      cases hsubs : subs with
      | nil => rename_i hne; exact absurd hsubs hne
      | cons s0 ss =>
        refine ⟨s0, by simp, ?_⟩
        intro sb hsb hn0 hn
        have h1 := hdom sb (by rw [hsubs]; exact hsb) hn
        have h0 := hdom s0 (by rw [hsubs]; simp) hn0
        -- both bounds are dominated by -inf, hence equal to it
        have e : ∀ x : F, x.isNan = false → F.ge F.ninf x = true → x = F.ninf := by
          intro x hx hge; cases x <;> simp_all [F.ge, F.le, F.isNan]
        rw [e _ hn0 h0, e _ hn h1]
        rfl

/-- `select_next_subspace`: while some sub-space has no score the proposal is the centre of the FIRST such sub-space and the
    list of sub-spaces is unchanged (nothing is split) -/
theorem C17_direct_unscored_first {s s' : DirSt} {p : Pos} {i : Nat}
    (hi : s.subs.findIdx? (fun x => x.score.isNone) = some i) (h : dirPropose s = .ok (p, s')) :
    ∃ sb, s.subs[i]? = some sb ∧ sb.score = none ∧ p = sb.center ∧ s'.subs = s.subs ∧ s'.cur = some i ∧ s'.tape = s.tape := by
  unfold dirPropose at h
  rw [hi] at h
  simp only at h
  cases hs : s.subs[i]? with
  | none => rw [hs] at h; simp at h
  | some sb =>
    rw [hs] at h
    simp only [Except.ok.injEq, Prod.mk.injEq] at h
    obtain ⟨rfl, rfl⟩ := h
    refine ⟨sb, rfl, ?_, rfl, rfl, rfl, rfl⟩
    have := List.findIdx?_eq_some_iff_getElem.mp hi
    obtain ⟨hlt, hp, _⟩ := this
    have hsb : s.subs[i] = sb := by
      have := List.getElem?_eq_getElem hlt
      rw [this] at hs; simpa using hs
    rw [hsb] at hp
    simpa using hp

end GFO.DirectRuns
