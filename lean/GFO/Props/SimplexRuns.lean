/-
  Whole-run theorems for the complete model of `DownhillSimplexOptimizer` (GFO.Model.Simplex), through the real driver
  model, for every configuration, objective, call, prior state and tape:

    C01_C02_simplex_positions        every position a call evaluates is a feasible position of the space
    C19_simplex_tracker_grounded     the tracked pairs and valid lists are really evaluated pairs (its `evaluate` only records)
    C15_simplex_centeroid_raises     the KNOWN FINDINGS (C15) as theorems: with at most one valid position `iterate` raises
                                     IndexError in `centeroid`
    C15_simplex_*_witness            runs through the whole driver, evaluated by the kernel: no valid score -> IndexError;
                                     one valid score -> IndexError; two valid positions in a 2-D space (a simplex needs
                                     three) -> IndexError in the shrink (`simplex_pos[compress_idx]`)
-/
import GFO.Model.Simplex
import GFO.Props.PowellRuns
namespace GFO.SimplexRuns
open GFO GFO.C01 GFO.C19 GFO.LocalRuns GFO.PopRuns GFO.EvoRuns

theorem takeSorted_spec {scores : List F} {tape rest : Tape} {perm : List Nat} (h : takeSorted scores tape = .ok (perm, rest)) :
    tape = Draw.sorted perm :: rest := by
  unfold takeSorted at h
  split at h
  · split at h
    · simp only [Except.ok.injEq, Prod.mk.injEq] at h; obtain ⟨rfl, rfl⟩ := h; rfl
    · simp at h
  · simp at h
  · simp at h

theorem moveVec_spec {g : Geo} {sp : Space} {f : Pos → Bool} (hgeo : g = sp.geo) (hsp : SpaceOK sp) {tape rest : Tape} {p : Pos}
    (ht : TapeOK sp f tape) (h : moveVec g tape = .ok (p, rest)) : rest <:+ tape ∧ InSpace sp p := by
  unfold moveVec at h
  split at h
  · rename_i v rest0
    obtain ⟨hs, horig, _⟩ := conv2posT_spec h
    refine ⟨hs.trans (List.suffix_cons _ _), ?_⟩
    rcases horig with e | ⟨e, _⟩
    · obtain ⟨l1, l2⟩ := ht.spiral v (by simp)
      rw [e, hgeo]; exact clipped_inSpace hsp v l1 l2
    · exact ht.rnd p (List.mem_cons_of_mem _ e)
  · simp at h
  · simp at h

theorem simplexFromValid_spec {s s' : SimSt} {tape rest : Tape} (h : simplexFromValid s tape = .ok (s', rest)) :
    rest <:+ tape ∧ s'.tr = s.tr ∧ s'.initL = s.initL := by
  unfold simplexFromValid at h
  simp only [bind, Except.bind, pure, Except.pure] at h
  cases h1 : takeSorted s.tr.scoresValid tape with
  | error e => rw [h1] at h; simp at h
  | ok a =>
    rw [h1] at h
    simp only at h
    have e1 := takeSorted_spec (show takeSorted s.tr.scoresValid tape = .ok (a.1, a.2) from h1)
    cases h2 : permute s.tr.positionsValid a.1 with
    | error e => rw [h2] at h; simp at h
    | ok ps =>
      rw [h2] at h
      simp only at h
      cases h3 : permute s.tr.scoresValid a.1 with
      | error e => rw [h3] at h; simp at h
      | ok sc =>
        rw [h3] at h
        simp only [Except.ok.injEq, Prod.mk.injEq] at h
        obtain ⟨rfl, rfl⟩ := h
        exact ⟨by rw [e1]; exact List.suffix_cons _ _, rfl, rfl⟩

theorem simOther_spec {cfg : SimCfg} {sp : Space} {f : Pos → Bool} (hgeo : cfg.geo = sp.geo) (hsp : SpaceOK sp)
    {s1 s' : SimSt} {t1 : Tape} {p : Pos} (ht : TapeOK sp f t1) (h : simOther cfg s1 t1 = .ok (p, s')) :
    s'.tape <:+ t1 ∧ s'.tr = s1.tr ∧ s'.initL = s1.initL ∧ InSpace sp p := by
  unfold simOther at h
  cases h4 : moveVec cfg.geo t1 with
  | error e => rw [h4] at h; simp at h
  | ok c =>
    rw [h4] at h
    simp only [Except.ok.injEq, Prod.mk.injEq] at h
    obtain ⟨rfl, rfl⟩ := h
    obtain ⟨hs3, hin⟩ := moveVec_spec hgeo hsp ht (show moveVec cfg.geo t1 = .ok (c.1, c.2) from h4)
    exact ⟨hs3, rfl, rfl, hin⟩

theorem simReflect_spec {cfg : SimCfg} {sp : Space} {f : Pos → Bool} (hgeo : cfg.geo = sp.geo) (hsp : SpaceOK sp)
    {s1 s' : SimSt} {t1 : Tape} {p : Pos} (ht : TapeOK sp f t1) (h : simReflect cfg s1 t1 = .ok (p, s')) :
    s'.tape <:+ t1 ∧ s'.tr = s1.tr ∧ s'.initL = s1.initL ∧ InSpace sp p := by
  unfold simReflect at h
  cases h1 : takeSorted s1.simplexScores t1 with
  | error e => rw [h1] at h; simp at h
  | ok a =>
    rw [h1] at h
    simp only at h
    have e1 := takeSorted_spec (show takeSorted s1.simplexScores t1 = .ok (a.1, a.2) from h1)
    have hs2 : a.2 <:+ t1 := by rw [e1]; exact List.suffix_cons _ _
    cases h2 : permute s1.simplexPos a.1 with
    | error e => rw [h2] at h; simp at h
    | ok ps =>
      cases h3 : permute s1.simplexScores a.1 with
      | error e => rw [h2, h3] at h; simp at h
      | ok sc =>
        rw [h2, h3] at h
        simp only at h
        split at h
        · simp at h
        · cases h4 : moveVec cfg.geo a.2 with
          | error e => rw [h4] at h; simp at h
          | ok c =>
            rw [h4] at h
            simp only [Except.ok.injEq, Prod.mk.injEq] at h
            obtain ⟨rfl, rfl⟩ := h
            obtain ⟨hs3, hin⟩ := moveVec_spec hgeo hsp (ht.suffix hs2) (show moveVec cfg.geo a.2 = .ok (c.1, c.2) from h4)
            exact ⟨hs3.trans hs2, rfl, rfl, hin⟩

/-- the proposal before the constraint check: a position of the space; tracker and start-up list untouched -/
theorem simPropose_spec {cfg : SimCfg} {sp : Space} {f : Pos → Bool} (hgeo : cfg.geo = sp.geo) (hsp : SpaceOK sp)
    {s s' : SimSt} {p : Pos} (ht : TapeOK sp f s.tape) (h : simPropose cfg s = .ok (p, s')) :
    s'.tape <:+ s.tape ∧ s'.tr = s.tr ∧ s'.initL = s.initL ∧ InSpace sp p := by
  unfold simPropose at h
  cases h0 : simRefresh s with
  | error e => rw [h0] at h; simp at h
  | ok a =>
    rw [h0] at h
    simp only at h
    have ha : a.2 <:+ s.tape ∧ a.1.tr = s.tr ∧ a.1.initL = s.initL := by
      unfold simRefresh at h0
      split at h0
      · exact simplexFromValid_spec (show simplexFromValid s s.tape = .ok (a.1, a.2) from h0)
      · simp only [Except.ok.injEq] at h0; subst h0; exact ⟨List.suffix_refl _, rfl, rfl⟩
    obtain ⟨hs1, htr1, hil1⟩ := ha
    have hta := ht.suffix hs1
    unfold simMove at h
    split at h
    · obtain ⟨x1, x2, x3, x4⟩ := simReflect_spec hgeo hsp hta h
      exact ⟨x1.trans hs1, by rw [x2, htr1], by rw [x3, hil1], x4⟩
    · split at h
      · obtain ⟨x1, x2, x3, x4⟩ := simOther_spec hgeo hsp hta h
        exact ⟨x1.trans hs1, by rw [x2, htr1], by rw [x3, hil1], x4⟩
      · split at h
        · split at h
          · simp at h
          · obtain ⟨x1, x2, x3, x4⟩ := simOther_spec hgeo hsp hta h
            exact ⟨x1.trans hs1, by rw [x2, htr1], by rw [x3, hil1], x4⟩
        · simp at h

theorem simIterate_spec {cfg : SimCfg} {sp : Space} {f : Pos → Bool} (hgeo : cfg.geo = sp.geo) (hsp : SpaceOK sp)
    {s s' : SimSt} {p : Pos} (ht : TapeOK sp f s.tape) (h : simIterate cfg s = .ok (p, s')) :
    s'.tape <:+ s.tape ∧ s'.tr = s.tr.trackNewPos p ∧ s'.initL = s.initL ∧ InSpace sp p ∧ f p = true := by
  unfold simIterate at h
  cases h1 : simPropose cfg s with
  | error e => rw [h1] at h; simp at h
  | ok a =>
    rw [h1] at h
    simp only at h
    obtain ⟨hs1, htr1, hil1, hin1⟩ := simPropose_spec hgeo hsp ht (show simPropose cfg s = .ok (a.1, a.2) from h1)
    cases h2 : askFeas a.1 a.2.tape with
    | error e => rw [h2] at h; simp at h
    | ok b =>
      rw [h2] at h
      simp only at h
      have e2 := askFeas_spec (show askFeas a.1 a.2.tape = .ok (b.1, b.2) from h2)
      have hs2 : b.2 <:+ s.tape := (by rw [e2]; exact List.suffix_cons _ _ : b.2 <:+ a.2.tape).trans hs1
      by_cases hok : b.1 = true
      · simp only [hok, if_true, Except.ok.injEq, Prod.mk.injEq] at h
        obtain ⟨rfl, rfl⟩ := h
        have hfe : f a.1 = true := by
          have := (ht.suffix hs1).feas a.1 b.1 (by rw [e2]; simp); rw [← this]; exact hok
        exact ⟨hs2, by simp only; rw [htr1], hil1, hin1, hfe⟩
      · simp only [hok, Bool.false_eq_true, if_false] at h
        cases h3 : moveClimb cfg.geo (some a.1) (some 1) s.tape.length b.2 with
        | error e => rw [h3] at h; simp at h
        | ok c =>
          rw [h3] at h
          simp only [Except.ok.injEq, Prod.mk.injEq] at h
          obtain ⟨rfl, rfl⟩ := h
          obtain ⟨a3, b3, c3⟩ := moveClimb_good hgeo hsp (ht.suffix hs2) h3
          exact ⟨a3.trans hs2, by simp only; rw [htr1], hil1, b3, c3⟩

/-- `evaluate` only records the score: tape and start-up list untouched, tracker = `setScoreNew` with the counter moved -/
theorem simEvaluate_spec {cfg : SimCfg} {s s' : SimSt} {score : F} (h : simEvaluate cfg s score = .ok s') :
    s'.tape = s.tape ∧ s'.initL = s.initL ∧
    s'.tr = { (s.tr.setScoreNew score) with nthTrial := (s.tr.setScoreNew score).nthTrial + 1 } := by
  unfold simEvaluate at h
  simp only at h
  split at h
  · simp only [Except.ok.injEq] at h; subst h; exact ⟨rfl, rfl, rfl⟩
  · cases hp : (s.tr.setScoreNew score).positionsValid.getLast? with
    | none => rw [hp] at h; simp at h
    | some prev =>
      rw [hp] at h
      simp only at h
      split at h
      · unfold simEval1 at h
        cases h0 : s.simplexScores.head? with
        | none => rw [h0] at h; simp at h
        | some s0 =>
          rw [h0] at h
          simp only at h
          split at h
          · simp only [Except.ok.injEq] at h; subst h; exact ⟨rfl, rfl, rfl⟩
          · cases h2 : s.simplexScores.dropLast.getLast? with
            | none => rw [h2] at h; simp at h
            | some s2 =>
              rw [h2] at h
              simp only at h
              split at h
              · cases ha : setLast s.simplexPos (some s.rPos) with
                | error e => rw [ha] at h; simp at h
                | ok ps =>
                  cases hb : setLast s.simplexScores score with
                  | error e => rw [ha, hb] at h; simp at h
                  | ok sc =>
                    rw [ha, hb] at h
                    simp only [Except.ok.injEq] at h; subst h; exact ⟨rfl, rfl, rfl⟩
              · simp only [Except.ok.injEq] at h; subst h; exact ⟨rfl, rfl, rfl⟩
      · split at h
        · unfold simEval3 at h
          cases h0 : s.simplexScores.getLast? with
          | none => rw [h0] at h; simp at h
          | some sl =>
            rw [h0] at h
            simp only at h
            split at h
            · cases ha : setLast s.simplexScores score with
              | error e => rw [ha] at h; simp at h
              | ok sc =>
                cases hb : setLast s.simplexPos prev with
                | error e => rw [ha, hb] at h; simp at h
                | ok ps =>
                  rw [ha, hb] at h
                  simp only [Except.ok.injEq] at h; subst h; exact ⟨rfl, rfl, rfl⟩
            · simp only [Except.ok.injEq] at h; subst h; exact ⟨rfl, rfl, rfl⟩
        · split at h
          · unfold simEval4 at h
            split at h
            · simp at h
            · simp only [Except.ok.injEq] at h; subst h; exact ⟨rfl, rfl, rfl⟩
          · simp only [Except.ok.injEq] at h; subst h; exact ⟨rfl, rfl, rfl⟩

/-- the run invariant -/
structure Inv (tape0 : Tape) (initL0 : List Pos) (d : DState SimSt) : Prop where
  tape : d.bst.tape <:+ tape0
  initL : d.bst.initL = initL0
  len : d.posL.length = d.scoreL.length
  grounded : Grounded (evalLog d) d.bst.tr

/-- one driver step keeps the invariant and emits a feasible position of the space -/
theorem step_inv {cfg : SimCfg} {sp : Space} {obj : Obj} {c : Call} {f : Pos → Bool} {tape0 : Tape} {initL0 : List Pos}
    (hgeo : cfg.geo = sp.geo) (hsp : SpaceOK sp) (ht : TapeOK sp f tape0) (hi : ∀ q ∈ initL0, InSpace sp q ∧ f q = true)
    (i : Nat) (d d1 : DState SimSt) (cs cs1 : CState) (p : Pos) (v : Value) (e : Eval)
    (hP : Inv tape0 initL0 d) (sf : StepFacts sp obj c i d d1 cs cs1 p v e)
    (hb : BStep (simBackend cfg) (i < cs.nInitsNorm) d.bst d1.bst p e.res.score) :
    Inv tape0 initL0 d1 ∧ (InSpace sp p ∧ f p = true) := by
  have hlog := evalLog_append hP.len sf.posL sf.scoreL
  have hlen : d1.posL.length = d1.scoreL.length := by rw [sf.posL, sf.scoreL]; simp [hP.len]
  rcases hb with ⟨_, s1, h1, h2⟩ | ⟨_, s0, s1, h0, h1, h2⟩
  · have h1' : simInitPos d.bst = .ok (p, s1) := h1
    unfold simInitPos at h1'
    split at h1'
    · rename_i q hq
      simp only [Except.ok.injEq, Prod.mk.injEq] at h1'
      obtain ⟨rfl, rfl⟩ := h1'
      simp only [simBackend, Except.ok.injEq] at h2
      have hmem : q ∈ initL0 := by rw [← hP.initL]; exact List.mem_of_getElem? hq
      refine ⟨{ tape := ?_, initL := ?_, len := hlen, grounded := ?_ }, hi q hmem⟩
      · rw [← h2]; exact hP.tape
      · rw [← h2]; exact hP.initL
      · rw [← h2, hlog]
        have g1 := grounded_trackNewPos hP.grounded q
        have := grounded_evaluateInit g1 e.res.score
        simpa [Tracker.trackNewPos] using this
    · simp at h1'
  · have hs0 : s0.tape <:+ tape0 ∧ s0.initL = initL0 ∧ s0.tr = d.bst.tr := by
      rcases h0 with h0 | h0
      · subst h0; exact ⟨hP.tape, hP.initL, rfl⟩
      · have h0' : simFinishInit d.bst = .ok s0 := h0
        unfold simFinishInit at h0'
        cases hg : simplexFromValid d.bst d.bst.tape with
        | error e' => rw [hg] at h0'; simp at h0'
        | ok a =>
          rw [hg] at h0'
          simp only [Except.ok.injEq] at h0'
          subst h0'
          obtain ⟨a1, a2, a3⟩ := simplexFromValid_spec (show simplexFromValid d.bst d.bst.tape = .ok (a.1, a.2) from hg)
          exact ⟨a1.trans hP.tape, by simp only; rw [a3]; exact hP.initL, by simp only; exact a2⟩
    obtain ⟨hst, hsi, hstr⟩ := hs0
    obtain ⟨a1, b1, c1, d1', f1⟩ := simIterate_spec hgeo hsp (ht.suffix hst) (show simIterate cfg s0 = .ok (p, s1) from h1)
    obtain ⟨a2, b2, c2⟩ := simEvaluate_spec (show simEvaluate cfg s1 e.res.score = .ok d1.bst from h2)
    refine ⟨{ tape := ?_, initL := ?_, len := hlen, grounded := ?_ }, d1', f1⟩
    · rw [a2]; exact a1.trans hst
    · rw [b2, c1]; exact hsi
    · rw [c2, hlog]
      have g1 : Grounded (evalLog d) s1.tr := by rw [b1, hstr]; exact grounded_trackNewPos hP.grounded p
      obtain ⟨g2, _⟩ := grounded_setScoreNew g1 e.res.score
      have hpn : s1.tr.posNew = some p := by rw [b1]; rfl
      rw [hpn] at g2
      exact grounded_nthTrial g2 _

theorem simplex_call {cfg : SimCfg} {sp : Space} {obj : Obj} {c : Call} {f : Pos → Bool} {tape0 : Tape} {initL0 : List Pos}
    {d d' : DState SimSt} {r : CallResult}
    (hgeo : cfg.geo = sp.geo) (hsp : SpaceOK sp) (ht : TapeOK sp f tape0) (hi : ∀ q ∈ initL0, InSpace sp q ∧ f q = true)
    (hP : Inv tape0 initL0 d) (hn : 0 < c.nIter) (h : searchCall (simBackend cfg) sp obj c d = .ok (d', r)) :
    Inv tape0 initL0 d' ∧ ∀ p ∈ C04.newPos d d', InSpace sp p ∧ f p = true := by
  obtain ⟨cs, d1, cs1, tr, _, hfin, T, hP1, hQ⟩ :=
    searchCall_inv (P := fun d _ => Inv tape0 initL0 d) (Q := fun t => InSpace sp t.pos ∧ f t.pos = true)
      (fun i d d1 cs cs1 p v e hp sf hb => step_inv hgeo hsp ht hi i d d1 cs cs1 p v e hp sf hb) h hn (fun _ _ => hP)
  obtain ⟨hrows, hposL, hscoreL, _, _, _, _, _, _, _, hbst, _⟩ := finishSearch_ok hfin
  constructor
  · exact { tape := by rw [hbst]; exact hP1.tape, initL := by rw [hbst]; exact hP1.initL
            len := by rw [hposL, hscoreL]; exact hP1.len
            grounded := by
              have := hP1.grounded
              unfold evalLog at this ⊢
              rw [hposL, hscoreL, hbst]; exact this }
  · intro p hp
    unfold C04.newPos at hp
    rw [hposL, T.posL] at hp
    simp only [List.drop_left] at hp
    obtain ⟨t, ht', rfl⟩ := List.mem_map.mp hp
    exact hQ t ht'

theorem C01_C02_simplex_positions {cfg : SimCfg} {sp : Space} {obj : Obj} {c : Call} {f : Pos → Bool} {tape0 : Tape}
    {initL0 : List Pos} {d d' : DState SimSt} {r : CallResult}
    (hgeo : cfg.geo = sp.geo) (hsp : SpaceOK sp) (ht : TapeOK sp f tape0) (hi : ∀ q ∈ initL0, InSpace sp q ∧ f q = true)
    (hP : Inv tape0 initL0 d) (hn : 0 < c.nIter) (h : searchCall (simBackend cfg) sp obj c d = .ok (d', r)) :
    ∀ p ∈ C04.newPos d d', InSpace sp p ∧ f p = true :=
  (simplex_call hgeo hsp ht hi hP hn h).2

theorem C19_simplex_tracker_grounded {cfg : SimCfg} {sp : Space} {obj : Obj} {c : Call} {f : Pos → Bool} {tape0 : Tape}
    {initL0 : List Pos} {d d' : DState SimSt} {r : CallResult}
    (hgeo : cfg.geo = sp.geo) (hsp : SpaceOK sp) (ht : TapeOK sp f tape0) (hi : ∀ q ∈ initL0, InSpace sp q ∧ f q = true)
    (hP : Inv tape0 initL0 d) (hn : 0 < c.nIter) (h : searchCall (simBackend cfg) sp obj c d = .ok (d', r)) :
    Grounded (evalLog d') d'.bst.tr :=
  (simplex_call hgeo hsp ht hi hP hn h).1.grounded

theorem inv_fresh (nInits : Nat) (initL : List Pos) (tape : Tape) :
    Inv tape initL ({ nInits := nInits, bst := { initL := initL, tape := tape } } : DState SimSt) :=
  { tape := List.suffix_refl _, initL := rfl, len := rfl, grounded := by simpa [evalLog] using grounded_fresh }

/-! ### the three known findings (C15), as theorems about the model -/

/-- with at most one vertex after the sort `centeroid(self.simplex_pos[:-1])` indexes an empty list: IndexError.
    (No valid position: the simplex is empty; exactly one: `[:-1]` is empty.) -/
theorem C15_simplex_centeroid_raises (cfg : SimCfg) (s1 : SimSt) (t1 rest : Tape) (perm : List Nat)
    (hlen : s1.simplexPos.length ≤ 1) (hsl : s1.simplexScores.length = s1.simplexPos.length)
    (ht : t1 = Draw.sorted perm :: rest) (hperm : perm.length = s1.simplexPos.length) (hs : sortedDesc s1.simplexScores perm = true) :
    (∃ e, simReflect cfg s1 t1 = .error e) ∧ ∀ p s', simReflect cfg s1 t1 ≠ .ok (p, s') := by
  have key : ∀ p s', simReflect cfg s1 t1 ≠ .ok (p, s') := by
    intro p s' h
    unfold simReflect at h
    simp only [ht, takeSorted, hs, if_true] at h
    cases h2 : permute s1.simplexPos perm with
    | error e => rw [h2] at h; simp at h
    | ok ps =>
      cases h3 : permute s1.simplexScores perm with
      | error e => rw [h2, h3] at h; simp at h
      | ok sc =>
        rw [h2, h3] at h
        simp only at h
        have hpl : ps.length = perm.length := (mapM_except_spec _ _ _ h2).1
        have : ps.dropLast = [] := by
          have : ps.length ≤ 1 := by omega
          match ps, this with
          | [], _ => rfl
          | [_], _ => rfl
        simp [this] at h
  refine ⟨?_, key⟩
  cases hr : simReflect cfg s1 t1 with
  | error e => exact ⟨e, rfl⟩
  | ok x => exact absurd hr (key x.1 x.2)

def nanObj : Obj := fun _ _ _ => ({ score := .nan, metrics := [] }, 0)
def idObj : Obj := fun _ _ v => ({ score := .fin (v.getD 0 0), metrics := [] }, 0)

def exSpace1 : Space := { names := ["x"], dims := [[0, 1, 2, 3, 4]] }
def exCfg1 : SimCfg := { nSimp := 2, geo := exSpace1.geo }

/-- no valid score at all: `finish_initialization` builds an empty simplex, the first `iterate` raises IndexError -/
def exD0 : DState SimSt := { nInits := 2, bst := { initL := [[2], [3]], tape := [.sorted [], .sorted [], .sorted []] } }
theorem C15_simplex_no_valid_score_witness :
    PatternRuns.isIndexError (searchCall (simBackend exCfg1) exSpace1 nanObj { nIter := 3, memory := .off } exD0) = true ∧
    (searchCall (simBackend exCfg1) exSpace1 nanObj { nIter := 2, memory := .off } exD0).toOption.isSome = true := by
  decide +kernel

/-- exactly one valid score (the second start-up position scores nan): a one-vertex simplex, IndexError in `centeroid` -/
def oneObj : Obj := fun _ stepIdx v => ({ score := if stepIdx = 0 then .fin (v.getD 0 0) else .nan, metrics := [] }, 0)
def exD1 : DState SimSt := { nInits := 2, bst := { initL := [[2], [3]], tape := [.sorted [0], .sorted [0], .sorted [0]] } }
theorem C15_simplex_one_valid_score_witness :
    PatternRuns.isIndexError (searchCall (simBackend exCfg1) exSpace1 oneObj { nIter := 3, memory := .off } exD1) = true := by
  decide +kernel

/-- 2-D space (a simplex needs three vertices) but only two valid positions: reflection and contraction are rejected, the
    shrink walks `compress_idx` = 0, 1, 2 and `simplex_pos[2]` does not exist: IndexError in `iterate` -/
def exSpace2 : Space := { names := ["x", "y"], dims := [[0, 1, 2, 3, 4], [0, 1, 2, 3, 4]] }
def exCfg2 : SimCfg := { nSimp := 3, geo := exSpace2.geo }
def sumObj : Obj := fun _ stepIdx v =>
  ({ score := if stepIdx = 2 then .nan else if stepIdx ≤ 1 then .fin (v.getD 0 0 + v.getD 1 0) else .fin (-5), metrics := [] }, 0)
def exD2 : DState SimSt :=
  { nInits := 3, bst := { initL := [[4, 4], [3, 3], [0, 0]], tape :=
      [.sorted [0, 1],                                        -- finish_initialization: two valid positions
       .sorted [0, 1], .spiral [.fin 4, .fin 3], .feas [4, 3] true,   -- reflection (score -5: rejected)
       .spiral [.fin 3, .fin 4], .feas [3, 4] true,           -- contraction (score -5: rejected -> shrink)
       .spiral [.fin 4, .fin 4], .feas [4, 4] true,           -- shrink vertex 0
       .spiral [.fin 3, .fin 3], .feas [3, 3] true] } }       -- shrink vertex 1; vertex 2 does not exist
theorem C15_simplex_shrink_witness :
    PatternRuns.isIndexError (searchCall (simBackend exCfg2) exSpace2 sumObj { nIter := 8, memory := .off } exD2) = true ∧
    (searchCall (simBackend exCfg2) exSpace2 sumObj { nIter := 7, memory := .off } exD2).toOption.isSome = true := by
  decide +kernel

end GFO.SimplexRuns
