/-
  C09 — score-using optimizers are directed towards higher scores.

  What Lean decides:
    * the score-blind half, at full strength and THROUGH THE DRIVER: for a backend whose position-producing methods read
      (and whose score-consuming methods write) disjoint parts of its state - random search, both grid searches - the
      positions a call evaluates are a function of the backend state, the number of initial positions and the step count only:
      two runs on `f` and on `-f` (or any two objectives) evaluate exactly the same points (`scoreBlind_positions`);
    * the orientation of the comparison kernels the anchors name: the hill-climbing window pick is a maximum of the window,
      the tracked best only moves up, the model-based proposal is an arg-max (C17), the progress bar keeps the maximum (C05).
  What it cannot decide: "seed for seed higher" for stochastic optimizers over Gaussian draws and sklearn surrogates is a
  statistical statement about no executable model; it is examined by the paired sign test of the check (wide margin) and
  three optimizers are recorded as known findings (DESIGN.md).
-/
import GFO.Proofs.Run
import GFO.Props.C19
namespace GFO.C09
open GFO
variable {σ τ : Type}

/-- a backend is score-blind through `view`: `init_pos` / `iterate` are functions of the view (and update it that way),
    `evaluate_init` / `evaluate` / `finish_initialization` leave it alone -/
structure ScoreBlind (b : Backend σ) (view : σ → τ) (vInit vIter : τ → Pos × τ) : Prop where
  initPos : ∀ s p s', b.initPos s = .ok (p, s') → (p, view s') = vInit (view s)
  iterate : ∀ s p s', b.iterate s = .ok (p, s') → (p, view s') = vIter (view s)
  evalInit : ∀ s x s', b.evalInit s x = .ok s' → view s' = view s
  evaluate : ∀ s x s', b.evaluate s x = .ok s' → view s' = view s
  finishInit : ∀ s s', b.finishInit s = .ok s' → view s' = view s

/-- the positions a score-blind backend emits in `k` steps of which the first `n` are initialisation steps -/
def blindRun (vInit vIter : τ → Pos × τ) (n : Nat) (v0 : τ) (k : Nat) : List Pos × τ :=
  (List.range k).foldl (fun acc i =>
    let r := if i < n then vInit acc.2 else vIter acc.2
    (acc.1 ++ [r.1], r.2)) ([], v0)

theorem blindRun_succ (vInit vIter : τ → Pos × τ) (n : Nat) (v0 : τ) (k : Nat) :
    blindRun vInit vIter n v0 (k + 1) =
      (let acc := blindRun vInit vIter n v0 k
       let r := if k < n then vInit acc.2 else vIter acc.2
       (acc.1 ++ [r.1], r.2)) := by
  unfold blindRun
  rw [List.range_succ, List.foldl_append]
  rfl

/-- C09, score-blind half: the positions evaluated by a call do not depend on the objective -/
theorem scoreBlind_positions {b : Backend σ} {view : σ → τ} {vInit vIter : τ → Pos × τ} (hb : ScoreBlind b view vInit vIter)
    {sp : Space} {obj : Obj} {c : Call} {d d' : DState σ} {r : CallResult}
    (h : searchCall b sp obj c d = .ok (d', r)) (hn : 0 < c.nIter) :
    d'.posL = d.posL ++ (blindRun vInit vIter (min (d.nInits - d.nInitTotal) c.nIter) (view d.bst) r.steps).1 := by
  let n := min (d.nInits - d.nInitTotal) c.nIter
  let P : Nat → DState σ → CState → Prop := fun i dd cs =>
    cs.nInitsNorm = n ∧ dd.posL = d.posL ++ (blindRun vInit vIter n (view d.bst) i).1 ∧
    view dd.bst = (blindRun vInit vIter n (view d.bst) i).2
  have hstep : ∀ i (dd d1 : DState σ) (cs cs1 : CState) p v e, P i dd cs → i < c.nIter → StepFacts sp obj c i dd d1 cs cs1 p v e →
      BStep b (i < cs.nInitsNorm) dd.bst d1.bst p e.res.score → P (i + 1) d1 cs1 := by
    intro i dd d1 cs cs1 p v e ⟨hnorm, hpos, hview⟩ _ f hbs
    show cs1.nInitsNorm = n ∧ d1.posL = d.posL ++ (blindRun vInit vIter n (view d.bst) (i + 1)).1 ∧
      view d1.bst = (blindRun vInit vIter n (view d.bst) (i + 1)).2
    rw [blindRun_succ]
    simp only
    refine ⟨by rw [f.nInitsNorm]; exact hnorm, ?_, ?_⟩
    · rw [f.posL, hpos, List.append_assoc]
      congr 2
      rcases hbs with ⟨hlt, s1, hi, _⟩ | ⟨hge, s0, s1, hs0, hit, _⟩
      · rw [hnorm] at hlt
        simp only [hlt, if_true]
        have := hb.initPos _ _ _ hi
        rw [← hview, ← this]
      · rw [hnorm] at hge
        simp only [hge, if_false]
        have hv0 : view s0 = view dd.bst := by
          rcases hs0 with e0 | e0
          · rw [e0]
          · exact hb.finishInit _ _ e0
        have := hb.iterate _ _ _ hit
        rw [← hview, ← hv0, ← this]
    · rcases hbs with ⟨hlt, s1, hi, he⟩ | ⟨hge, s0, s1, hs0, hit, he⟩
      · rw [hnorm] at hlt
        simp only [hlt, if_true]
        have h1 := hb.initPos _ _ _ hi
        have h2 := hb.evalInit _ _ _ he
        rw [h2, ← hview, ← h1]
      · rw [hnorm] at hge
        simp only [hge, if_false]
        have hv0 : view s0 = view dd.bst := by
          rcases hs0 with e0 | e0
          · rw [e0]
          · exact hb.finishInit _ _ e0
        have h1 := hb.iterate _ _ _ hit
        have h2 := hb.evaluate _ _ _ he
        rw [h2, ← hview, ← hv0, ← h1]
  have hstart : ∀ cs, initSearch sp c d = .ok cs → P 0 d cs := by
    intro cs hcs
    obtain ⟨_, _, hnorm, _⟩ := initSearch_ok hcs
    exact ⟨hnorm, by simp [blindRun], by simp [blindRun]⟩
  obtain ⟨cs, d1, cs1, _, hfin, hP⟩ := searchCall_inv_idx P hstep h hn hstart
  have hf := finishSearch_ok hfin
  rw [hf.2.1]
  exact hP.2.1

/-- hence two runs of a score-blind optimizer on ANY two objectives (e.g. `f` and `-f`) that perform the same number of
    steps evaluate exactly the same positions -/
theorem scoreBlind_same_points {b : Backend σ} {view : σ → τ} {vInit vIter : τ → Pos × τ} (hb : ScoreBlind b view vInit vIter)
    {sp : Space} {obj obj' : Obj} {c : Call} {d d1 d2 : DState σ} {r1 r2 : CallResult}
    (h1 : searchCall b sp obj c d = .ok (d1, r1)) (h2 : searchCall b sp obj' c d = .ok (d2, r2)) (hn : 0 < c.nIter)
    (hsteps : r1.steps = r2.steps) : d1.posL = d2.posL := by
  rw [scoreBlind_positions hb h1 hn, scoreBlind_positions hb h2 hn, hsteps]

/-! ### orientation of the comparison kernels -/

/-- the hill-climbing window pick (`max_list_idx`) returns the index of a maximum: no window entry is greater -/
theorem hc_window_pick_is_max (l : List F) (hne : l ≠ []) (hnn : ∀ x ∈ l, x.isNan = false) :
    ∃ m, l[Tracker.maxListIdx l]? = some m ∧ ∀ x ∈ l, F.gt x m = false := by
  cases l with
  | nil => exact absurd rfl hne
  | cons x xs =>
    -- the running maximum of the scan
    let mx := xs.foldl (fun m y => if F.gt y m then y else m) x
    have hmax : ∀ (ys : List F) (a : F), a.isNan = false → (∀ y ∈ ys, y.isNan = false) →
        (∀ y ∈ ys, F.gt y (ys.foldl (fun m y => if F.gt y m then y else m) a) = false) ∧
        F.gt a (ys.foldl (fun m y => if F.gt y m then y else m) a) = false ∧
        (ys.foldl (fun m y => if F.gt y m then y else m) a = a ∨ ys.foldl (fun m y => if F.gt y m then y else m) a ∈ ys) ∧
        (ys.foldl (fun m y => if F.gt y m then y else m) a).isNan = false := by
      intro ys
      induction ys with
      | nil => intro a ha _; exact ⟨by intro y hy; simp at hy, by simp [F.gt, F.lt_irrefl], Or.inl rfl, ha⟩
      | cons y ys ih =>
        intro a ha hys
        simp only [List.foldl_cons]
        have hy : y.isNan = false := hys y (by simp)
        have hys' : ∀ z ∈ ys, z.isNan = false := fun z hz => hys z (by simp [hz])
        by_cases hgt : F.gt y a = true
        · simp only [hgt, if_true]
          obtain ⟨h1, h2, h3, h4⟩ := ih y hy hys'
          refine ⟨?_, ?_, ?_, h4⟩
          · intro z hz
            rcases List.mem_cons.mp hz with e | e
            · subst e; exact h2
            · exact h1 z e
          · -- a < y ≤ final
            have hle : F.le y (ys.foldl (fun m y => if F.gt y m then y else m) y) = true := F.le_of_not_lt h4 hy (by simpa [F.gt] using h2)
            have hlt : F.lt a (ys.foldl (fun m y => if F.gt y m then y else m) y) = true := F.lt_of_lt_of_le hgt hle
            have := F.not_lt_of_le (F.le_of_lt hlt)
            simpa [F.gt] using this
          · rcases h3 with e | e
            · right; rw [e]; simp
            · right; simp [e]
        · have hgt' : F.gt y a = false := by simpa using hgt
          simp only [hgt', Bool.false_eq_true, if_false]
          obtain ⟨h1, h2, h3, h4⟩ := ih a ha hys'
          refine ⟨?_, h2, ?_, h4⟩
          · intro z hz
            rcases List.mem_cons.mp hz with e | e
            · subst e
              -- z ≤ a ≤ final
              have hle1 : F.le z a = true := F.le_of_not_lt ha hy (by simpa [F.gt] using hgt')
              have hle2 : F.le a (ys.foldl (fun m y => if F.gt y m then y else m) a) = true := F.le_of_not_lt h4 ha (by simpa [F.gt] using h2)
              have := F.not_lt_of_le (F.le_trans hle1 hle2)
              simpa [F.gt] using this
            · exact h1 z e
          · rcases h3 with e | e
            · left; exact e
            · right; simp [e]
    have hx : x.isNan = false := hnn x (by simp)
    have hxs : ∀ y ∈ xs, y.isNan = false := fun y hy => hnn y (by simp [hy])
    obtain ⟨h1, h2, h3, h4⟩ := hmax xs x hx hxs
    -- the picked index holds an element equal to the maximum
    have hmem : mx ∈ x :: xs := by
      rcases h3 with e | e
      · simp [mx, e]
      · simp [mx, e]
    -- maxListIdx returns the last index whose element beq mx; such an index exists
    unfold Tracker.maxListIdx
    simp only
    have hfilter_ne : ((x :: xs).zipIdx.filter (fun e => F.beq e.1 mx)) ≠ [] := by
      obtain ⟨i, hi, hget⟩ := List.getElem_of_mem hmem
      intro hnil
      have : ((x :: xs)[i], i) ∈ (x :: xs).zipIdx.filter (fun e => F.beq e.1 mx) := by
        apply List.mem_filter.mpr
        refine ⟨?_, by simp only [hget]; exact F.beq_self h4⟩
        rw [List.mem_zipIdx_iff_getElem?]
        simp [List.getElem?_eq_getElem hi]
      rw [hnil] at this; simp at this
    obtain ⟨e, he⟩ : ∃ e, ((x :: xs).zipIdx.filter (fun e => F.beq e.1 mx)).getLast? = some e := by
      cases hl : ((x :: xs).zipIdx.filter (fun e => F.beq e.1 mx)).getLast? with
      | none => exact absurd (List.getLast?_eq_none_iff.mp hl) hfilter_ne
      | some e => exact ⟨e, rfl⟩
    have hein := List.mem_of_getLast? he
    obtain ⟨hez, heb⟩ := List.mem_filter.mp hein
    have hidx : (x :: xs)[e.2]? = some e.1 := by
      rw [List.mem_zipIdx_iff_getElem?] at hez
      simpa using hez
    have hem : e.1 = mx := (F.beq_eq heb).1
    refine ⟨e.1, ?_, ?_⟩
    · have hl : (((x :: xs).zipIdx.filter (fun e => F.beq e.1 mx)).map (·.2)).getLast? = some e.2 := by
        rw [List.getLast?_map, he]; rfl
      show (x :: xs)[((((x :: xs).zipIdx.filter (fun e => F.beq e.1 mx)).map (·.2)).getLast?).getD 0]? = some e.1
      rw [hl]; exact hidx
    · intro z hz
      rw [hem]
      rcases List.mem_cons.mp hz with e' | e'
      · subst e'; exact h2
      · exact h1 z e'

/-- the tracked best of the hill-climbing evaluate only moves up (C19.best_monotone_hc), re-exported for the anchor -/
theorem eval2best_keeps_max (t : Tracker) (n : Nat) (s : F) (hb : t.posBest.isSome = true) :
    (t.hcEvaluate n s).scoreBest = t.scoreBest ∨ F.gt (t.hcEvaluate n s).scoreBest t.scoreBest = true :=
  C19.best_monotone_hc t n s hb

end GFO.C09
