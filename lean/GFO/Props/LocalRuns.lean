/-
  Whole-run theorems for the six optimizers that are modelled COMPLETELY (GFO.Model.Local: HillClimbing,
  StochasticHillClimbing, SimulatedAnnealing, RepulsingHillClimbing, RandomRestartHillClimbing, RandomSearch), through the
  real driver model (`searchCall`), for every configuration, objective, call, prior state and oracle tape:

    C01_local_positions_in_space   every position a call evaluates lies in the space
    C02_local_positions_feasible   … and satisfies the constraint
    C19_local_tracker_grounded     after the call the tracked best pair, the tracked current pair and the valid lists are
                                   (position, score) pairs this optimizer really evaluated (or still `(None, -inf)`)
    C15_local_evaluate_total       no score, finite or not, makes `evaluate` / `evaluate_init` fail

  What is assumed about the oracle side is stated as `TapeOK`: a random position is a position of the space
  (`random.choice` returns an element), a drawn vector has one nan-free coordinate per dimension, and the constraint is a
  function of the position.  The start-up list is assumed in the space and feasible - that is `GFO.C02.initializer_feasible`.
-/
import GFO.Proofs.Local
import GFO.Props.C04
namespace GFO.LocalRuns
open GFO GFO.C01 GFO.C19

/-- assumptions about what the generators and the constraint return -/
structure TapeOK (sp : Space) (feas : Pos → Bool) (tape : Tape) : Prop where
  rnd : ∀ p, Draw.rnd p ∈ tape → InSpace sp p
  dist : ∀ l v, Draw.dist l v ∈ tape → v.length = sp.dims.length ∧ noNan v = true
  feas : ∀ p b, Draw.feas p b ∈ tape → b = feas p
  part : ∀ p v, Draw.part p v ∈ tape → p.length = sp.dims.length ∧ v.length = sp.dims.length
  spiral : ∀ v, Draw.spiral v ∈ tape → v.length = sp.dims.length ∧ noNan v = true
  mutant : ∀ v, Draw.mutant v ∈ tape → noNan v = true

theorem TapeOK.suffix {sp : Space} {f : Pos → Bool} {t1 t2 : Tape} (h : TapeOK sp f t2) (hs : t1 <:+ t2) : TapeOK sp f t1 :=
  { rnd := fun p hp => h.rnd p (hs.subset hp)
    dist := fun l v hv => h.dist l v (hs.subset hv)
    feas := fun p b hb => h.feas p b (hs.subset hb)
    part := fun p v hv => h.part p v (hs.subset hv)
    spiral := fun v hv => h.spiral v (hs.subset hv)
    mutant := fun v hv => h.mutant v (hs.subset hv) }

/-- sizes as the kernels need them: no empty dimension, indices fit int64 -/
def SpaceOK (sp : Space) : Prop := ∀ d ∈ sp.dims, 0 < d.length ∧ (d.length : Int) - 1 ≤ INT64_MAX

theorem inMax_inSpace (dims : List (List Rat)) (p : Pos)
    (h : inMax (dims.map (fun d => (d.length : Int) - 1)) p) : inBox (dims.map List.length) p = true := by
  induction dims generalizing p with
  | nil => cases p <;> simp_all [inMax, inBox]
  | cons d ds ih =>
    cases p with
    | nil => simp [inMax] at h
    | cons x xs =>
      simp only [List.map_cons, inMax] at h
      obtain ⟨h0, h1, hr⟩ := h
      simp only [List.map_cons, inBox, Bool.and_eq_true, decide_eq_true_eq]
      exact ⟨⟨h0, by omega⟩, ih xs hr⟩

theorem clipped_inSpace {sp : Space} (hsp : SpaceOK sp) (v : List F) (hlen : v.length = sp.dims.length) (hn : noNan v = true) :
    InSpace sp (clipCastVec v sp.maxPositions) := by
  unfold InSpace Space.sizes
  apply inMax_inSpace
  apply clipCastVec_inMax v _ (by simp [Space.maxPositions, hlen]) _ hn
  intro m hm
  simp only [Space.maxPositions, List.mem_map] at hm
  obtain ⟨d, hd, rfl⟩ := hm
  have := hsp d hd
  omega

/-- a proposal of the six optimizers is a position of the space on which the constraint is True -/
theorem proposal_ok {cfg : LocalCfg} {sp : Space} {f : Pos → Bool} {s s' : Local} {p : Pos}
    (hgeo : cfg.geo = sp.geo) (hsp : SpaceOK sp) (ht : TapeOK sp f s.tape)
    (h : localIterate cfg s = .ok (p, s')) : InSpace sp p ∧ f p = true := by
  obtain ⟨_, hf, ho, _⟩ := localIterate_spec h
  refine ⟨?_, (ht.feas p true hf).symm⟩
  cases ho with
  | random hr => exact ht.rnd p hr
  | clipped l v hd hp =>
    obtain ⟨hlen, hn⟩ := ht.dist l v hd
    rw [hp, hgeo]
    exact clipped_inSpace hsp v hlen hn

/-- the (position, score) pairs an optimizer object has evaluated so far, as the tracker sees them -/
def evalLog {σ : Type} (d : DState σ) : Log := (d.posL.zip d.scoreL).map (fun e => (some e.1, e.2))

/-- the run invariant: the tape only shrinks, the start-up list is untouched, positions and scores stay aligned, the
    tracker is grounded in the evaluation log -/
structure Inv (tape0 : Tape) (initL0 : List Pos) (d : DState Local) : Prop where
  tape : d.bst.tape <:+ tape0
  initL : d.bst.initL = initL0
  len : d.posL.length = d.scoreL.length
  grounded : Grounded (evalLog d) d.bst.tr

theorem evalLog_append {σ : Type} {d d' : DState σ} {p : Pos} {s : F} (hl : d.posL.length = d.scoreL.length)
    (hp : d'.posL = d.posL ++ [p]) (hs : d'.scoreL = d.scoreL ++ [s]) : evalLog d' = evalLog d ++ [(some p, s)] := by
  unfold evalLog
  rw [hp, hs, List.zip_append hl]
  simp

/-- one driver step of a complete backend keeps the invariant and emits a good position -/
theorem step_inv {cfg : LocalCfg} {sp : Space} {obj : Obj} {c : Call} {f : Pos → Bool} {tape0 : Tape} {initL0 : List Pos}
    (hgeo : cfg.geo = sp.geo) (hsp : SpaceOK sp) (ht : TapeOK sp f tape0) (hi : ∀ q ∈ initL0, InSpace sp q ∧ f q = true)
    (i : Nat) (d d1 : DState Local) (cs cs1 : CState) (p : Pos) (v : Value) (e : Eval)
    (hP : Inv tape0 initL0 d) (sf : StepFacts sp obj c i d d1 cs cs1 p v e)
    (hb : BStep (localBackend cfg) (i < cs.nInitsNorm) d.bst d1.bst p e.res.score) :
    Inv tape0 initL0 d1 ∧ (InSpace sp p ∧ f p = true) := by
  have hlog := evalLog_append hP.len sf.posL sf.scoreL
  have hlen : d1.posL.length = d1.scoreL.length := by rw [sf.posL, sf.scoreL]; simp [hP.len]
  rcases hb with ⟨_, s1, h1, h2⟩ | ⟨_, s0, s1, h0, h1, h2⟩
  · -- initialisation step
    obtain ⟨hget, htape, htr, hil, _⟩ := localInitPos_spec h1
    simp only [localBackend, Except.ok.injEq] at h2
    have hmem : p ∈ initL0 := by rw [← hP.initL]; exact List.mem_of_getElem? hget
    refine ⟨{ tape := ?_, initL := ?_, len := hlen, grounded := ?_ }, hi p hmem⟩
    · rw [← h2]; simp only; rw [htape]; exact hP.tape
    · rw [← h2]; simp only; rw [hil]; exact hP.initL
    · rw [← h2, hlog]
      simp only
      have g1 := grounded_trackNewPos hP.grounded p
      have := grounded_evaluateInit (t := s1.tr) (by rw [htr]; exact g1) e.res.score
      rw [htr] at this ⊢
      simpa [Tracker.trackNewPos] using this
  · -- iteration step
    have hs0 : s0 = d.bst := by
      rcases h0 with h0 | h0
      · exact h0
      · simp only [localBackend, Except.ok.injEq] at h0; exact h0.symm
    subst hs0
    have h1' : localIterate cfg d.bst = .ok (p, s1) := h1
    have h2' : localEvaluate cfg s1 e.res.score = .ok d1.bst := h2
    obtain ⟨hsuf, _, _, htr, hil, _⟩ := localIterate_spec h1'
    obtain ⟨hsuf2, hil2, accept, htr2⟩ := localEvaluate_spec h2'
    have hgood := proposal_ok hgeo hsp (ht.suffix hP.tape) h1'
    refine ⟨{ tape := (hsuf2.trans hsuf).trans hP.tape, initL := by rw [hil2, hil]; exact hP.initL, len := hlen, grounded := ?_ }, hgood⟩
    rw [htr2, hlog]
    have g1 : Grounded (evalLog d) s1.tr := by rw [htr]; exact grounded_trackNewPos hP.grounded p
    have := grounded_evalWith g1 cfg e.res.score accept
    rw [htr] at this ⊢
    simpa [Tracker.trackNewPos] using this

/-- C01 + C02 + C19 for one `search()` call of any of the six optimizers, any objective, any arguments, any prior state
    satisfying the invariant (a fresh optimizer does: `inv_fresh`), any oracle tape -/
theorem local_call {cfg : LocalCfg} {sp : Space} {obj : Obj} {c : Call} {f : Pos → Bool} {tape0 : Tape} {initL0 : List Pos}
    {d d' : DState Local} {r : CallResult}
    (hgeo : cfg.geo = sp.geo) (hsp : SpaceOK sp) (ht : TapeOK sp f tape0) (hi : ∀ q ∈ initL0, InSpace sp q ∧ f q = true)
    (hP : Inv tape0 initL0 d) (hn : 0 < c.nIter)
    (h : searchCall (localBackend cfg) sp obj c d = .ok (d', r)) :
    Inv tape0 initL0 d' ∧ ∀ p ∈ C04.newPos d d', InSpace sp p ∧ f p = true := by
  obtain ⟨cs, d1, cs1, tr, _, hfin, T, hP1, hQ⟩ :=
    searchCall_inv (P := fun d _ => Inv tape0 initL0 d) (Q := fun t => InSpace sp t.pos ∧ f t.pos = true)
      (fun i d d1 cs cs1 p v e hp sf hb => step_inv hgeo hsp ht hi i d d1 cs cs1 p v e hp sf hb) h hn (fun _ _ => hP)
  obtain ⟨hrows, hposL, hscoreL, _, _, _, _, _, _, _, hbst, _⟩ := finishSearch_ok hfin
  constructor
  · exact { tape := by rw [hbst]; exact hP1.tape, initL := by rw [hbst]; exact hP1.initL
            len := by rw [hposL, hscoreL]; exact hP1.len
            grounded := by
              have := hP1.grounded
              unfold evalLog at this ⊢
              rw [hposL, hscoreL, hbst]; exact this }
  · intro p hp
    unfold C04.newPos at hp
    rw [hposL, T.posL] at hp
    simp only [List.drop_left] at hp
    obtain ⟨t, ht', rfl⟩ := List.mem_map.mp hp
    exact hQ t ht'

/-- a freshly constructed optimizer satisfies the invariant -/
theorem inv_fresh (nInits : Nat) (initL : List Pos) (tape : Tape) :
    Inv tape initL ({ nInits := nInits, bst := { initL := initL, tape := tape } } : DState Local) :=
  { tape := List.suffix_refl _, initL := rfl, len := rfl, grounded := by simpa [evalLog] using grounded_fresh }

/-- C01: every position evaluated by a call lies in the search space -/
theorem C01_local_positions_in_space {cfg : LocalCfg} {sp : Space} {obj : Obj} {c : Call} {f : Pos → Bool} {tape0 : Tape}
    {initL0 : List Pos} {d d' : DState Local} {r : CallResult}
    (hgeo : cfg.geo = sp.geo) (hsp : SpaceOK sp) (ht : TapeOK sp f tape0) (hi : ∀ q ∈ initL0, InSpace sp q ∧ f q = true)
    (hP : Inv tape0 initL0 d) (hn : 0 < c.nIter) (h : searchCall (localBackend cfg) sp obj c d = .ok (d', r)) :
    ∀ p ∈ C04.newPos d d', InSpace sp p :=
  fun p hp => ((local_call hgeo hsp ht hi hP hn h).2 p hp).1

/-- C02: every position evaluated by a call satisfies the constraint -/
theorem C02_local_positions_feasible {cfg : LocalCfg} {sp : Space} {obj : Obj} {c : Call} {f : Pos → Bool} {tape0 : Tape}
    {initL0 : List Pos} {d d' : DState Local} {r : CallResult}
    (hgeo : cfg.geo = sp.geo) (hsp : SpaceOK sp) (ht : TapeOK sp f tape0) (hi : ∀ q ∈ initL0, InSpace sp q ∧ f q = true)
    (hP : Inv tape0 initL0 d) (hn : 0 < c.nIter) (h : searchCall (localBackend cfg) sp obj c d = .ok (d', r)) :
    ∀ p ∈ C04.newPos d d', f p = true :=
  fun p hp => ((local_call hgeo hsp ht hi hP hn h).2 p hp).2

/-- C19: after any history of calls the tracked best and current pairs (and every entry of the valid lists) are pairs
    `(position, score)` that this optimizer evaluated - position `k` of `pos_l` with score `k` of `score_l` - or `(None, -inf)` -/
theorem C19_local_tracker_grounded {cfg : LocalCfg} {sp : Space} {obj : Obj} {c : Call} {f : Pos → Bool} {tape0 : Tape}
    {initL0 : List Pos} {d d' : DState Local} {r : CallResult}
    (hgeo : cfg.geo = sp.geo) (hsp : SpaceOK sp) (ht : TapeOK sp f tape0) (hi : ∀ q ∈ initL0, InSpace sp q ∧ f q = true)
    (hP : Inv tape0 initL0 d) (hn : 0 < c.nIter) (h : searchCall (localBackend cfg) sp obj c d = .ok (d', r)) :
    let t := d'.bst.tr
    ((t.posBest = none ∧ t.scoreBest = .ninf) ∨ ∃ (k : Nat) (p : Pos) (s : F), d'.posL[k]? = some p ∧ d'.scoreL[k]? = some s ∧ t.posBest = some p ∧ t.scoreBest = s) ∧
    ((t.posCurrent = none ∧ t.scoreCurrent = .ninf) ∨ ∃ (k : Nat) (p : Pos) (s : F), d'.posL[k]? = some p ∧ d'.scoreL[k]? = some s ∧ t.posCurrent = some p ∧ t.scoreCurrent = s) := by
  have g := (local_call hgeo hsp ht hi hP hn h).1.grounded
  have key : ∀ (op : Option Pos) (s : F), (op, s) ∈ evalLog d' →
      ∃ (k : Nat) (p : Pos) (s' : F), d'.posL[k]? = some p ∧ d'.scoreL[k]? = some s' ∧ op = some p ∧ s = s' := by
    intro op s hm
    unfold evalLog at hm
    obtain ⟨⟨p, s'⟩, hz, he⟩ := List.mem_map.mp hm
    simp only [Prod.mk.injEq] at he
    obtain ⟨k, hk, hget⟩ := List.getElem_of_mem hz
    have hk' : k < d'.posL.length ∧ k < d'.scoreL.length := by simpa [List.length_zip] using hk
    refine ⟨k, p, s', ?_, ?_, he.1.symm, he.2.symm⟩
    · have : (d'.posL.zip d'.scoreL)[k] = (d'.posL[k]'hk'.1, d'.scoreL[k]'hk'.2) := by simp
      rw [this] at hget
      rw [List.getElem?_eq_getElem hk'.1]; simp [(Prod.mk.inj hget).1]
    · have : (d'.posL.zip d'.scoreL)[k] = (d'.posL[k]'hk'.1, d'.scoreL[k]'hk'.2) := by simp
      rw [this] at hget
      rw [List.getElem?_eq_getElem hk'.2]; simp [(Prod.mk.inj hget).2]
  refine ⟨?_, ?_⟩
  · rcases g.best with hb | hb
    · exact Or.inl hb
    · exact Or.inr (key _ _ hb)
  · rcases g.current with hc | hc
    · exact Or.inl hc
    · exact Or.inr (key _ _ hc)

/-- C15: `evaluate_init` is total, and `evaluate` fails only for want of an oracle entry (never because of the score) -/
theorem C15_local_evaluate_total (cfg : LocalCfg) (s : Local) (score : F) :
    (∃ s', (localBackend cfg).evalInit s score = .ok s') ∧
    ((∃ s', (localBackend cfg).evaluate s score = .ok s') ∨
     (cfg.kind = .stochastic ∧ F.le score s.tr.scoreCurrent = true ∧ ∀ pAcc r rest, s.tape ≠ Draw.accept pAcc r :: rest)) :=
  ⟨⟨_, rfl⟩, localEvaluate_total cfg s score⟩

/-! ### the premises are satisfiable: a concrete constrained hill-climbing run -/

def exSpace : Space := { names := ["x"], dims := [[0, 1, 2, 3, 4]] }
def exCfg : LocalCfg := { kind := .hillClimbing, nNeighbours := 1, geo := exSpace.geo }
def exFeas : Pos → Bool := fun p => p != [3]
def exTape : Tape :=
  [.unif (1/2), .climb [2] 1, .dist [2] [.fin (29/10)], .feas [3] false, .dist [3] [.fin (-2/5)], .feas [0] true]
def exObj : Obj := fun _ _ v => ({ score := .fin (v.getD 0 0), metrics := [] }, 0)
def exD : DState Local := { nInits := 1, bst := { initL := [[2]], tape := exTape } }

example : (searchCall (localBackend exCfg) exSpace exObj { nIter := 2, memory := .off } exD).map (fun x => (x.1.posL, x.1.bst.tr.posCurrent, x.1.bst.tape.length))
    = .ok ([[2], [0]], some [2], 0) := by decide +kernel

example : TapeOK exSpace exFeas exTape :=
  { rnd := by intro p hp; simp [exTape] at hp
    dist := by
      intro l v hv
      simp only [exTape, List.mem_cons, Draw.dist.injEq, reduceCtorEq, false_or, List.mem_nil_iff, or_false] at hv
      rcases hv with ⟨_, rfl⟩ | ⟨_, rfl⟩ <;> decide
    feas := by
      intro p b hb
      simp only [exTape, List.mem_cons, Draw.feas.injEq, reduceCtorEq, false_or, List.mem_nil_iff, or_false] at hb
      rcases hb with ⟨rfl, rfl⟩ | ⟨rfl, rfl⟩ <;> decide
    part := by intro p v hp; simp [exTape] at hp
    spiral := by intro v hp; simp [exTape] at hp
    mutant := by intro v hp; simp [exTape] at hp }

example : SpaceOK exSpace := by intro d hd; simp [exSpace] at hd; subst hd; decide

end GFO.LocalRuns
