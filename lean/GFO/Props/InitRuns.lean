/-
  C10 (b) for the complete models: a FRESH optimizer of any of the eleven single-tracker classes that are modelled
  completely (HillClimbing, StochasticHillClimbing, SimulatedAnnealing, RepulsingHillClimbing, RandomRestartHillClimbing,
  RandomAnnealing, RandomSearch, GridSearch, PatternSearch, PowellsMethod, DownhillSimplex) evaluates its list of start-up
  positions, in order, in the first `n_inits` steps of a call - whatever the objective, the tape, the arguments and the
  stopping criteria.  (`GFO.C10.init_list_evaluated` with the start-up list carried by the backend state.)
-/
import GFO.Props.C10
import GFO.Props.SimplexRuns
import GFO.Props.GridRuns
namespace GFO.InitRuns
open GFO
variable {σ : Type}

/-- `init_pos` over a list `L` under a state invariant `I` that the two start-up methods preserve -/
structure ListInitI (b : Backend σ) (L : List Pos) (nth : σ → Nat) (I : σ → Prop) : Prop where
  initPos : ∀ s p s', I s → b.initPos s = .ok (p, s') → L[nth s]? = some p ∧ nth s' = nth s + 1 ∧ I s'
  evalInit : ∀ s x s', I s → b.evalInit s x = .ok s' → nth s' = nth s ∧ I s'

/-- a fresh optimizer evaluates its list of initial positions, in order, in the first `n_inits` steps -/
theorem init_list_evaluated_inv {b : Backend σ} {sp : Space} {obj : Obj} {c : Call} {d d' : DState σ} {r : CallResult}
    {L : List Pos} {nth : σ → Nat} {I : σ → Prop} (hb : ListInitI b L nth I)
    (h : searchCall b sp obj c d = .ok (d', r)) (hn : 0 < c.nIter)
    (hfresh : d.posL = [] ∧ d.nInitTotal = 0 ∧ nth d.bst = 0 ∧ I d.bst) (hL : L.length = d.nInits) :
    d'.posL.take (min r.steps L.length) = L.take (min r.steps L.length) := by
  let n := min L.length c.nIter
  let P : Nat → DState σ → CState → Prop := fun i dd cs =>
    cs.nInitsNorm = n ∧ dd.posL.length = i ∧ dd.posL.take (min i L.length) = L.take (min i L.length) ∧
    (i ≤ n → nth dd.bst = i ∧ I dd.bst)
  have hstep : ∀ i (dd d1 : DState σ) (cs cs1 : CState) p v e, P i dd cs → i < c.nIter → StepFacts sp obj c i dd d1 cs cs1 p v e →
      BStep b (i < cs.nInitsNorm) dd.bst d1.bst p e.res.score → P (i + 1) d1 cs1 := by
    intro i dd d1 cs cs1 p v e ⟨hnorm, hlen, htake, hnth⟩ hiter f hbs
    refine ⟨by rw [f.nInitsNorm]; exact hnorm, by rw [f.posL]; simp [hlen], ?_, ?_⟩
    · rw [f.posL]
      rcases hbs with ⟨hlt, s1, hi, he⟩ | ⟨hge, _⟩
      · rw [hnorm] at hlt
        have hiL : i < L.length := by simp only [n] at hlt; omega
        obtain ⟨hnthi, hI⟩ := hnth (by omega)
        obtain ⟨hget, _⟩ := hb.initPos _ _ _ hI hi
        rw [hnthi] at hget
        have e1 : min (i + 1) L.length = i + 1 := by omega
        have e0 : min i L.length = i := by omega
        rw [e1]
        rw [e0] at htake
        have hposi : dd.posL = L.take i := by
          have := List.take_of_length_le (Nat.le_of_eq hlen) (l := dd.posL)
          rw [← this]; exact htake
        have hLi : L.take (i + 1) = L.take i ++ [p] := by
          rw [List.take_add_one, hget]; simp
        rw [hposi, hLi]
        apply List.take_of_length_le
        simp [List.length_take]
      · rw [hnorm] at hge
        have hiL : L.length ≤ i := by simp only [n] at hge; omega
        have e1 : min (i + 1) L.length = L.length := by omega
        have e0 : min i L.length = L.length := by omega
        rw [e1]; rw [e0] at htake
        rw [List.take_append_of_le_length (by omega)]
        exact htake
    · intro hle
      rcases hbs with ⟨hlt, s1, hi, he⟩ | ⟨hge, _⟩
      · obtain ⟨hnthi, hI⟩ := hnth (by omega)
        obtain ⟨_, hn1, hI1⟩ := hb.initPos _ _ _ hI hi
        obtain ⟨hn2, hI2⟩ := hb.evalInit _ _ _ hI1 he
        exact ⟨by rw [hn2, hn1, hnthi], hI2⟩
      · rw [hnorm] at hge; omega
  have hstart : ∀ cs, initSearch sp c d = .ok cs → P 0 d cs := by
    intro cs hcs
    obtain ⟨_, _, hnorm, _⟩ := initSearch_ok hcs
    refine ⟨by rw [hnorm, hfresh.2.1, ← hL]; simp only [n]; omega, by rw [hfresh.1]; rfl, by simp, fun _ => ⟨hfresh.2.2.1, hfresh.2.2.2⟩⟩
  obtain ⟨cs, d1, cs1, _, hfin, hP⟩ := searchCall_inv_idx P hstep h hn hstart
  have hf := finishSearch_ok hfin
  rw [hf.2.1]
  exact hP.2.2.1

theorem evaluateInit_nthInit (t : Tracker) (s : F) : (Tracker.evaluateInit t s).nthInit = t.nthInit := by
  unfold Tracker.evaluateInit Tracker.setScoreNew
  split <;> (simp only; split <;> split <;> rfl)

/-- the seven optimizers of GFO.Model.Local -/
theorem local_listInit (cfg : LocalCfg) (L : List Pos) :
    ListInitI (localBackend cfg) L (fun s => s.tr.nthInit) (fun s => s.initL = L) :=
  { initPos := by
      intro s p s' hI h
      obtain ⟨hq, _, htr, hil, _⟩ := localInitPos_spec (show localInitPos s = .ok (p, s') from h)
      exact ⟨by rw [← hI]; exact hq, by rw [htr]; rfl, by rw [hil]; exact hI⟩
    evalInit := by
      intro s x s' hI h
      simp only [localBackend, Except.ok.injEq] at h
      subst h
      exact ⟨evaluateInit_nthInit _ _, hI⟩ }

theorem C10_local_init_list_evaluated {cfg : LocalCfg} {sp : Space} {obj : Obj} {c : Call} {d d' : DState Local} {r : CallResult}
    (h : searchCall (localBackend cfg) sp obj c d = .ok (d', r)) (hn : 0 < c.nIter)
    (hfresh : d.posL = [] ∧ d.nInitTotal = 0 ∧ d.bst.tr.nthInit = 0) (hL : d.bst.initL.length = d.nInits) :
    d'.posL.take (min r.steps d.bst.initL.length) = d.bst.initL.take (min r.steps d.bst.initL.length) :=
  init_list_evaluated_inv (local_listInit cfg d.bst.initL) h hn ⟨hfresh.1, hfresh.2.1, hfresh.2.2, rfl⟩ hL

/-- grid search -/
theorem C10_grid_init_list_evaluated {cfg : GridCfg} {sp : Space} {obj : Obj} {c : Call} {d d' : DState GridSt} {r : CallResult}
    (h : searchCall (gridBackend cfg) sp obj c d = .ok (d', r)) (hn : 0 < c.nIter)
    (hfresh : d.posL = [] ∧ d.nInitTotal = 0 ∧ d.bst.tr.nthInit = 0) (hL : d.bst.initL.length = d.nInits) :
    d'.posL.take (min r.steps d.bst.initL.length) = d.bst.initL.take (min r.steps d.bst.initL.length) := by
  have hb : ListInitI (gridBackend cfg) d.bst.initL (fun s => s.tr.nthInit) (fun s => s.initL = d.bst.initL) :=
    { initPos := by
        intro s p s' hI h
        have h' : gridInitPos s = .ok (p, s') := h
        unfold gridInitPos at h'
        split at h'
        · rename_i q hq
          simp only [Except.ok.injEq, Prod.mk.injEq] at h'
          obtain ⟨rfl, rfl⟩ := h'
          exact ⟨by rw [← hI]; exact hq, rfl, hI⟩
        · simp at h'
      evalInit := by
        intro s x s' hI h
        simp only [gridBackend, Except.ok.injEq] at h
        subst h
        exact ⟨evaluateInit_nthInit _ _, hI⟩ }
  exact init_list_evaluated_inv hb h hn ⟨hfresh.1, hfresh.2.1, hfresh.2.2, rfl⟩ hL

/-- pattern search -/
theorem C10_pattern_init_list_evaluated {cfg : PatCfg} {sp : Space} {obj : Obj} {c : Call} {d d' : DState PatSt} {r : CallResult}
    (h : searchCall (patBackend cfg) sp obj c d = .ok (d', r)) (hn : 0 < c.nIter)
    (hfresh : d.posL = [] ∧ d.nInitTotal = 0 ∧ d.bst.tr.nthInit = 0) (hL : d.bst.initL.length = d.nInits) :
    d'.posL.take (min r.steps d.bst.initL.length) = d.bst.initL.take (min r.steps d.bst.initL.length) := by
  have hb : ListInitI (patBackend cfg) d.bst.initL (fun s => s.tr.nthInit) (fun s => s.initL = d.bst.initL) :=
    { initPos := by
        intro s p s' hI h
        have h' : patInitPos s = .ok (p, s') := h
        unfold patInitPos at h'
        split at h'
        · rename_i q hq
          simp only [Except.ok.injEq, Prod.mk.injEq] at h'
          obtain ⟨rfl, rfl⟩ := h'
          exact ⟨by rw [← hI]; exact hq, rfl, hI⟩
        · simp at h'
      evalInit := by
        intro s x s' hI h
        simp only [patBackend, Except.ok.injEq] at h
        subst h
        exact ⟨evaluateInit_nthInit _ _, hI⟩ }
  exact init_list_evaluated_inv hb h hn ⟨hfresh.1, hfresh.2.1, hfresh.2.2, rfl⟩ hL

/-- Powell's method -/
theorem C10_powell_init_list_evaluated {cfg : PowCfg} {sp : Space} {obj : Obj} {c : Call} {d d' : DState PowSt} {r : CallResult}
    (h : searchCall (powBackend cfg) sp obj c d = .ok (d', r)) (hn : 0 < c.nIter)
    (hfresh : d.posL = [] ∧ d.nInitTotal = 0 ∧ d.bst.tr.nthInit = 0) (hL : d.bst.initL.length = d.nInits) :
    d'.posL.take (min r.steps d.bst.initL.length) = d.bst.initL.take (min r.steps d.bst.initL.length) := by
  have hb : ListInitI (powBackend cfg) d.bst.initL (fun s => s.tr.nthInit) (fun s => s.initL = d.bst.initL) :=
    { initPos := by
        intro s p s' hI h
        have h' : powInitPos s = .ok (p, s') := h
        unfold powInitPos at h'
        split at h'
        · rename_i q hq
          simp only [Except.ok.injEq, Prod.mk.injEq] at h'
          obtain ⟨rfl, rfl⟩ := h'
          exact ⟨by rw [← hI]; exact hq, rfl, hI⟩
        · simp at h'
      evalInit := by
        intro s x s' hI h
        simp only [powBackend, Except.ok.injEq] at h
        subst h
        exact ⟨evaluateInit_nthInit _ _, hI⟩ }
  exact init_list_evaluated_inv hb h hn ⟨hfresh.1, hfresh.2.1, hfresh.2.2, rfl⟩ hL

/-- downhill simplex -/
theorem C10_simplex_init_list_evaluated {cfg : SimCfg} {sp : Space} {obj : Obj} {c : Call} {d d' : DState SimSt} {r : CallResult}
    (h : searchCall (simBackend cfg) sp obj c d = .ok (d', r)) (hn : 0 < c.nIter)
    (hfresh : d.posL = [] ∧ d.nInitTotal = 0 ∧ d.bst.tr.nthInit = 0) (hL : d.bst.initL.length = d.nInits) :
    d'.posL.take (min r.steps d.bst.initL.length) = d.bst.initL.take (min r.steps d.bst.initL.length) := by
  have hb : ListInitI (simBackend cfg) d.bst.initL (fun s => s.tr.nthInit) (fun s => s.initL = d.bst.initL) :=
    { initPos := by
        intro s p s' hI h
        have h' : simInitPos s = .ok (p, s') := h
        unfold simInitPos at h'
        split at h'
        · rename_i q hq
          simp only [Except.ok.injEq, Prod.mk.injEq] at h'
          obtain ⟨rfl, rfl⟩ := h'
          exact ⟨by rw [← hI]; exact hq, rfl, hI⟩
        · simp at h'
      evalInit := by
        intro s x s' hI h
        simp only [simBackend, Except.ok.injEq] at h
        subst h
        exact ⟨evaluateInit_nthInit _ _, hI⟩ }
  exact init_list_evaluated_inv hb h hn ⟨hfresh.1, hfresh.2.1, hfresh.2.2, rfl⟩ hL

end GFO.InitRuns
