/-
  Whole-run theorems for the complete POPULATION models (GFO.Model.Population): `ParallelTemperingOptimizer`
  (round-robin over complete SimulatedAnnealing systems), `ParticleSwarmOptimizer` and `SpiralOptimization` (after fix
  d993248), on one shared oracle tape, through the real driver model, for every population size, configuration, objective,
  call, prior state and tape:

    C01_C02_*_positions        every position a call evaluates is a feasible position of the space
    C19_*_members_grounded     after the call the tracked best / current pair and the valid lists of EVERY member are
                               (position, score) pairs the optimizer really evaluated (or still `(None, -inf)`)

  The three optimizers are instances of one contract (`PopOK`): what `init_pos`, `evaluate_init`, `iterate`, `evaluate` of a
  population optimizer must do to the member list for the run invariant to hold.
-/
import GFO.Model.Population
import GFO.Props.LocalRuns
namespace GFO.PopRuns
open GFO GFO.C01 GFO.C19 GFO.LocalRuns

theorem pick_spec {s : PopSt} {idx : Nat} {m : Local} (h : s.pick = .ok (idx, m)) :
    s.members[idx]? = some m ∧ idx < s.members.length := by
  unfold PopSt.pick at h
  split at h
  · simp at h
  · simp only at h
    split at h
    · rename_i m' hm
      simp only [Except.ok.injEq, Prod.mk.injEq] at h
      obtain ⟨h1, h2⟩ := h
      subst h1 h2
      exact ⟨hm, by
        rcases Nat.eq_zero_or_pos s.members.length with h0 | h0
        · omega
        · exact Nat.mod_lt _ h0⟩
    · simp at h

/-- the tracked pairs and valid lists of two trackers coincide (they may differ in `pos_new`, `score_new`, counters) -/
structure SameTracked (t t' : Tracker) : Prop where
  pb : t'.posBest = t.posBest
  sb : t'.scoreBest = t.scoreBest
  pc : t'.posCurrent = t.posCurrent
  sc : t'.scoreCurrent = t.scoreCurrent
  pv : t'.positionsValid = t.positionsValid
  sv : t'.scoresValid = t.scoresValid

theorem SameTracked.grounded {log : Log} {t t' : Tracker} (h : SameTracked t t') (g : Grounded log t) : Grounded log t' :=
  { best := by rw [h.pb, h.sb]; exact g.best, current := by rw [h.pc, h.sc]; exact g.current
    valid := by rw [h.pv, h.sv]; exact g.valid, validLen := by rw [h.pv, h.sv]; exact g.validLen }

theorem sameTracked_trackNewPos (t : Tracker) (p : Pos) : SameTracked t (t.trackNewPos p) :=
  { pb := rfl, sb := rfl, pc := rfl, sc := rfl, pv := rfl, sv := rfl }

/-- the members' remembered positions lie in the space -/
def MembersIn (sp : Space) (s : PopSt) : Prop :=
  ∀ m ∈ s.members, ∀ q, (m.tr.posCurrent = some q ∨ m.tr.posNew = some q) → InSpace sp q

/-- the contract of a population backend w.r.t. a space and a constraint; `view` projects the member list and the tape
    out of the backend state, `extra` is whatever else the backend needs to keep true (GA: the queued offspring) -/
structure PopOK {σ : Type} (b : Backend σ) (view : σ → PopSt) (extra : σ → Prop) (sp : Space) (f : Pos → Bool) : Prop where
  initPos : ∀ s p s', extra s → b.initPos s = .ok (p, s') → extra s' ∧
    ∃ idx m m', (view s).members[idx]? = some m ∧ idx < (view s).members.length ∧ p ∈ m.initL ∧
      (view s').members = (view s).members.set idx m' ∧ m'.initL = m.initL ∧ m'.tr.posNew = some p ∧ SameTracked m.tr m'.tr ∧
      (view s').cur = idx ∧ (view s').tape = (view s).tape
  evalInit : ∀ s score s', extra s → b.evalInit s score = .ok s' → extra s' ∧
    ∃ m m', (view s).members[(view s).cur]? = some m ∧ (view s').members = (view s).members.set (view s).cur m' ∧ m'.initL = m.initL ∧
      m'.tr = Tracker.evaluateInit m.tr score ∧ (view s').tape = (view s).tape
  finishInit : ∀ s s', b.finishInit s = .ok s' → s' = s
  iterate : ∀ s p s', TapeOK sp f (view s).tape → MembersIn sp (view s) → extra s → b.iterate s = .ok (p, s') → extra s' ∧
    ∃ idx m m', (view s).members[idx]? = some m ∧ idx < (view s).members.length ∧
      (view s').members = (view s).members.set idx m' ∧ m'.initL = m.initL ∧ m'.tr.posNew = some p ∧ SameTracked m.tr m'.tr ∧
      (view s').cur = idx ∧ (view s').tape <:+ (view s).tape ∧ InSpace sp p ∧ f p = true
  evaluate : ∀ s score s', extra s → b.evaluate s score = .ok s' → extra s' ∧
    ∃ m m', (view s).members[(view s).cur]? = some m ∧ (view s').members = (view s).members.set (view s).cur m' ∧ m'.initL = m.initL ∧
      (view s').tape <:+ (view s).tape ∧ m'.tr.posNew = m.tr.posNew ∧
      ∀ log, Grounded log m.tr → Grounded (log ++ [(m.tr.posNew, score)]) m'.tr

/-- the run invariant of a population -/
structure Inv {σ : Type} (view : σ → PopSt) (extra : σ → Prop) (sp : Space) (tape0 : Tape) (inits0 : List (List Pos))
    (d : DState σ) : Prop where
  tape : (view d.bst).tape <:+ tape0
  inits : (view d.bst).members.map (·.initL) = inits0
  len : d.posL.length = d.scoreL.length
  grounded : ∀ m ∈ (view d.bst).members, Grounded (evalLog d) m.tr
  inSp : ∀ p ∈ d.posL, InSpace sp p
  newIn : ∀ m ∈ (view d.bst).members, ∀ q, m.tr.posNew = some q → InSpace sp q
  extra : extra d.bst

theorem map_initL_set (ms : List Local) (idx : Nat) (m m' : Local) (hm : ms[idx]? = some m) (hi : m'.initL = m.initL) :
    (ms.set idx m').map (·.initL) = ms.map (·.initL) := by
  rw [List.map_set]
  apply List.ext_getElem?
  intro k
  by_cases hk : idx = k
  · subst hk
    rw [List.getElem?_set]
    simp only [if_true, List.length_map]
    split
    · rw [hi, List.getElem?_map, hm]; rfl
    · rename_i hlt
      rw [List.getElem?_map, List.getElem?_eq_none (by omega)]; rfl
  · rw [List.getElem?_set_ne hk]

theorem mem_set_cases {α : Type} {ms : List α} {idx : Nat} {a x : α} (h : x ∈ ms.set idx a) : x = a ∨ x ∈ ms := by
  rcases List.mem_or_eq_of_mem_set h with h | h
  · exact Or.inr h
  · exact Or.inl h

theorem evalLog_pos {σ : Type} {d : DState σ} {q : Pos} {s : F} (h : (some q, s) ∈ evalLog d) : q ∈ d.posL := by
  unfold evalLog at h
  obtain ⟨⟨p, s'⟩, hz, he⟩ := List.mem_map.mp h
  simp only [Prod.mk.injEq, Option.some.injEq] at he
  obtain ⟨rfl, _⟩ := he
  exact (List.of_mem_zip hz).1

/-- from the invariant: every member's remembered positions lie in the space -/
theorem Inv.membersIn {σ : Type} {view : σ → PopSt} {extra : σ → Prop} {sp : Space} {tape0 : Tape} {inits0 : List (List Pos)}
    {d : DState σ} (hP : Inv view extra sp tape0 inits0 d) : MembersIn sp (view d.bst) := by
  intro m hm q hq
  rcases hq with hq | hq
  · rcases (hP.grounded m hm).current with ⟨hn, _⟩ | hmem
    · rw [hn] at hq; simp at hq
    · rw [hq] at hmem; exact hP.inSp q (evalLog_pos hmem)
  · exact hP.newIn m hm q hq

/-- one driver step of ANY population backend that meets the contract keeps the invariant and emits a feasible position
    of the space -/
theorem step_inv {σ : Type} {b : Backend σ} {view : σ → PopSt} {extra : σ → Prop} {sp : Space} {obj : Obj} {c : Call}
    {f : Pos → Bool} {tape0 : Tape} {inits0 : List (List Pos)}
    (hb : PopOK b view extra sp f) (ht : TapeOK sp f tape0) (hi : ∀ l ∈ inits0, ∀ q ∈ l, InSpace sp q ∧ f q = true)
    (i : Nat) (d d1 : DState σ) (cs cs1 : CState) (p : Pos) (v : Value) (e : Eval)
    (hP : Inv view extra sp tape0 inits0 d) (sf : StepFacts sp obj c i d d1 cs cs1 p v e)
    (hs : BStep b (i < cs.nInitsNorm) d.bst d1.bst p e.res.score) :
    Inv view extra sp tape0 inits0 d1 ∧ (InSpace sp p ∧ f p = true) := by
  have hlog := evalLog_append hP.len sf.posL sf.scoreL
  have hlen : d1.posL.length = d1.scoreL.length := by rw [sf.posL, sf.scoreL]; simp [hP.len]
  have hinSp : InSpace sp p → ∀ q ∈ d1.posL, InSpace sp q := by
    intro hp q hq
    rw [sf.posL] at hq
    rcases List.mem_append.mp hq with h | h
    · exact hP.inSp q h
    · simp at h; subst h; exact hp
  rcases hs with ⟨_, s1, h1, h2⟩ | ⟨_, s0, s1, h0, h1, h2⟩
  · -- start-up step
    obtain ⟨hx1, idx, m, m', hget, hidx, hmem, hset, hil, hpn, hst, hcur, htape⟩ := hb.initPos _ _ _ hP.extra h1
    obtain ⟨hx2, mm, m2, hmm, hset2, hil2, htr2, htape2⟩ := hb.evalInit _ _ _ hx1 h2
    rw [hcur, hset, List.getElem?_set_self hidx, Option.some.injEq] at hmm
    subst hmm
    have hml : m.initL ∈ inits0 := by
      rw [← hP.inits]; exact List.mem_map.mpr ⟨m, List.mem_of_getElem? hget, rfl⟩
    have hgood := hi _ hml p hmem
    refine ⟨{ tape := ?_, inits := ?_, len := hlen, grounded := ?_, inSp := hinSp hgood.1, newIn := ?_, extra := hx2 }, hgood⟩
    · rw [htape2, htape]; exact hP.tape
    · rw [hset2, hset, hcur, List.set_set, map_initL_set (view d.bst).members idx m _ hget (by rw [hil2, hil])]
      exact hP.inits
    · rw [hset2, hset, hcur, List.set_set, hlog]
      intro x hx
      rcases mem_set_cases hx with hx | hx
      · subst hx
        rw [htr2]
        have g1 : Grounded (evalLog d) m'.tr := hst.grounded (hP.grounded m (List.mem_of_getElem? hget))
        have := grounded_evaluateInit g1 e.res.score
        rwa [hpn] at this
      · exact (hP.grounded x hx).mono _
    · rw [hset2, hset, hcur, List.set_set]
      intro x hx q hq
      rcases mem_set_cases hx with hx | hx
      · subst hx
        rw [htr2] at hq
        have : (Tracker.evaluateInit m'.tr e.res.score).posNew = m'.tr.posNew := by
          unfold Tracker.evaluateInit Tracker.setScoreNew
          split <;> (simp only; split <;> split <;> rfl)
        rw [this, hpn] at hq
        simp only [Option.some.injEq] at hq; subst hq; exact hgood.1
      · exact hP.newIn x hx q hq
  · -- iteration step
    have hs0 : s0 = d.bst := by
      rcases h0 with h0 | h0
      · exact h0
      · exact hb.finishInit _ _ h0
    subst hs0
    obtain ⟨hx1, idx, m, m', hget, hidx, hset, hil, hpn, hst, hcur, hsuf, hin, hfe⟩ :=
      hb.iterate _ _ _ (ht.suffix hP.tape) hP.membersIn hP.extra h1
    obtain ⟨hx2, mm, m2, hmm, hset2, hil2, hsuf2, hpn2, hgr⟩ := hb.evaluate _ _ _ hx1 h2
    rw [hcur, hset, List.getElem?_set_self hidx, Option.some.injEq] at hmm
    subst hmm
    refine ⟨{ tape := ?_, inits := ?_, len := hlen, grounded := ?_, inSp := hinSp hin, newIn := ?_, extra := hx2 }, hin, hfe⟩
    · exact (hsuf2.trans hsuf).trans hP.tape
    · rw [hset2, hset, hcur, List.set_set, map_initL_set (view d.bst).members idx m _ hget (by rw [hil2, hil])]
      exact hP.inits
    · rw [hset2, hset, hcur, List.set_set, hlog]
      intro x hx
      rcases mem_set_cases hx with hx | hx
      · subst hx
        have g1 : Grounded (evalLog d) m'.tr := hst.grounded (hP.grounded m (List.mem_of_getElem? hget))
        have := hgr _ g1
        rwa [hpn] at this
      · exact (hP.grounded x hx).mono _
    · rw [hset2, hset, hcur, List.set_set]
      intro x hx q hq
      rcases mem_set_cases hx with hx | hx
      · subst hx
        rw [hpn2, hpn] at hq
        simp only [Option.some.injEq] at hq; subst hq; exact hin
      · exact hP.newIn x hx q hq

/-- C01 + C02 + C19 for one `search()` call of any population backend meeting the contract -/
theorem pop_call {σ : Type} {b : Backend σ} {view : σ → PopSt} {extra : σ → Prop} {sp : Space} {obj : Obj} {c : Call}
    {f : Pos → Bool} {tape0 : Tape} {inits0 : List (List Pos)} {d d' : DState σ} {r : CallResult}
    (hb : PopOK b view extra sp f) (ht : TapeOK sp f tape0) (hi : ∀ l ∈ inits0, ∀ q ∈ l, InSpace sp q ∧ f q = true)
    (hP : Inv view extra sp tape0 inits0 d) (hn : 0 < c.nIter) (h : searchCall b sp obj c d = .ok (d', r)) :
    Inv view extra sp tape0 inits0 d' ∧ ∀ p ∈ C04.newPos d d', InSpace sp p ∧ f p = true := by
  obtain ⟨cs, d1, cs1, tr, _, hfin, T, hP1, hQ⟩ :=
    searchCall_inv (P := fun d _ => Inv view extra sp tape0 inits0 d) (Q := fun t => InSpace sp t.pos ∧ f t.pos = true)
      (fun i d d1 cs cs1 p v e hp sf hs => step_inv hb ht hi i d d1 cs cs1 p v e hp sf hs) h hn (fun _ _ => hP)
  obtain ⟨hrows, hposL, hscoreL, _, _, _, _, _, _, _, hbst, _⟩ := finishSearch_ok hfin
  constructor
  · exact { tape := by rw [hbst]; exact hP1.tape, inits := by rw [hbst]; exact hP1.inits
            len := by rw [hposL, hscoreL]; exact hP1.len
            grounded := by
              have := hP1.grounded
              unfold evalLog at this ⊢
              rw [hposL, hscoreL, hbst]; exact this
            inSp := by rw [hposL]; exact hP1.inSp
            newIn := by rw [hbst]; exact hP1.newIn
            extra := by rw [hbst]; exact hP1.extra }
  · intro p hp
    unfold C04.newPos at hp
    rw [hposL, T.posL] at hp
    simp only [List.drop_left] at hp
    obtain ⟨t, ht', rfl⟩ := List.mem_map.mp hp
    exact hQ t ht'

/-- a freshly constructed population satisfies the invariant -/
theorem inv_fresh (sp : Space) (nInits : Nat) (inits : List (List Pos)) (tape : Tape) :
    Inv (fun s : PopSt => s) (fun _ => True) sp tape inits
      ({ nInits := nInits, bst := { members := inits.map (fun l => { initL := l }), tape := tape } } : DState PopSt) :=
  { tape := List.suffix_refl _
    inits := by simp [List.map_map, Function.comp_def]
    len := rfl
    grounded := by
      intro m hm
      obtain ⟨l, _, rfl⟩ := List.mem_map.mp hm
      simpa [evalLog] using grounded_fresh
    inSp := by intro p hp; simp at hp
    newIn := by
      intro m hm q hq
      obtain ⟨l, _, rfl⟩ := List.mem_map.mp hm
      simp at hq
    extra := trivial }

/-! ### `evaluate` never touches `pos_new` -/

theorem setScoreNew_posNew (t : Tracker) (s : F) : (t.setScoreNew s).posNew = t.posNew := by
  unfold Tracker.setScoreNew; split <;> rfl

theorem baseEvaluate_posNew (t : Tracker) (s : F) : (t.baseEvaluate s).posNew = t.posNew := by
  unfold Tracker.baseEvaluate; split <;> rfl

theorem eval2_posNew (t : Tracker) (p : Option Pos) (s : F) : ((t.eval2current p s).eval2best p s).posNew = t.posNew := by
  unfold Tracker.eval2best Tracker.eval2current; split <;> split <;> rfl

theorem hcEvaluate_posNew (n : Nat) (t : Tracker) (s : F) : (Tracker.hcEvaluate n t s).posNew = t.posNew := by
  unfold Tracker.hcEvaluate
  simp only
  split
  · simp [baseEvaluate_posNew, setScoreNew_posNew]
  · split
    · split
      · simp [eval2_posNew, baseEvaluate_posNew, setScoreNew_posNew]
      · simp [baseEvaluate_posNew, setScoreNew_posNew]
    · simp [baseEvaluate_posNew, setScoreNew_posNew]

theorem plainEvaluate_posNew (t : Tracker) (s : F) : (Tracker.plainEvaluate t s).posNew = t.posNew := by
  unfold Tracker.plainEvaluate; simp [baseEvaluate_posNew, setScoreNew_posNew]

theorem stochasticEvaluate_posNew (n : Nat) (t : Tracker) (s : F) (a : Bool) :
    (Tracker.stochasticEvaluate n t s a).posNew = t.posNew := by
  unfold Tracker.stochasticEvaluate
  split
  · cases a <;> simp [Tracker.new2current, setScoreNew_posNew]
  · exact hcEvaluate_posNew n t s

theorem spiralEvaluate_posNew (t : Tracker) (s : F) : (Tracker.spiralEvaluate t s).posNew = t.posNew := by
  unfold Tracker.spiralEvaluate Tracker.evaluateCurrent2best Tracker.new2current
  simp only
  split <;> simp [setScoreNew_posNew]

theorem evalWith_posNew (cfg : LocalCfg) (t : Tracker) (s : F) (a : Bool) : (evalWith cfg t s a).posNew = t.posNew := by
  unfold evalWith
  split
  · exact hcEvaluate_posNew _ t s
  · exact hcEvaluate_posNew _ t s
  · exact hcEvaluate_posNew _ t s
  · exact hcEvaluate_posNew _ t s
  · exact plainEvaluate_posNew t s
  · exact stochasticEvaluate_posNew _ t s a

/-! ### the three optimizers meet the contract -/

theorem ptInitPos_ok {s s' : PopSt} {p : Pos} (h : ptInitPos s = .ok (p, s')) :
    ∃ idx m m', s.members[idx]? = some m ∧ idx < s.members.length ∧ p ∈ m.initL ∧
      s'.members = s.members.set idx m' ∧ m'.initL = m.initL ∧ m'.tr.posNew = some p ∧ SameTracked m.tr m'.tr ∧
      s'.cur = idx ∧ s'.tape = s.tape := by
  unfold ptInitPos at h
  simp only [bind, Except.bind, pure, Except.pure] at h
  cases hpk : s.pick with
  | error e => rw [hpk] at h; simp at h
  | ok x =>
    obtain ⟨idx, m⟩ := x
    rw [hpk] at h
    simp only at h
    cases hip : localInitPos m with
    | error e => rw [hip] at h; simp at h
    | ok y =>
      obtain ⟨q, m'⟩ := y
      rw [hip] at h
      simp only [Except.ok.injEq, Prod.mk.injEq] at h
      obtain ⟨e1, e2⟩ := h
      subst e1 e2
      obtain ⟨hget, hidx⟩ := pick_spec hpk
      obtain ⟨hq, _, htr, hil, _⟩ := localInitPos_spec hip
      exact ⟨idx, m, m', hget, hidx, List.mem_of_getElem? hq, rfl, hil, by rw [htr]; rfl,
        by rw [htr]; exact sameTracked_trackNewPos _ _, rfl, rfl⟩

theorem ptEvalInit_ok {s s' : PopSt} {score : F} (h : ptEvalInit s score = .ok s') :
    ∃ m m', s.members[s.cur]? = some m ∧ s'.members = s.members.set s.cur m' ∧ m'.initL = m.initL ∧
      m'.tr = Tracker.evaluateInit m.tr score ∧ s'.tape = s.tape := by
  unfold ptEvalInit at h
  cases hm : s.members[s.cur]? with
  | none => rw [hm] at h; simp at h
  | some m =>
    rw [hm] at h
    simp only [Except.ok.injEq] at h
    subst h
    exact ⟨m, _, rfl, rfl, rfl, rfl, rfl⟩

/-- the swap only consumes draws -/
theorem swapDraws_suffix : ∀ (n : Nat) (t r : Tape), swapDraws n t = .ok r → r <:+ t := by
  intro n
  induction n with
  | zero => intro t r h; simp only [swapDraws, Except.ok.injEq] at h; subst h; exact List.suffix_refl _
  | succ k ih =>
    intro t r h
    cases t with
    | nil => simp [swapDraws] at h
    | cons x xs =>
      cases x with
      | unif _ => simp only [swapDraws] at h; exact (ih xs r h).trans (List.suffix_cons _ _)
      | climb _ _ => simp [swapDraws] at h
      | dist _ _ => simp [swapDraws] at h
      | rnd _ => simp [swapDraws] at h
      | feas _ _ => simp [swapDraws] at h
      | accept _ _ => simp [swapDraws] at h
      | part _ _ => simp [swapDraws] at h
      | spiral _ => simp [swapDraws] at h
      | sorted _ => simp [swapDraws] at h
      | int _ => simp [swapDraws] at h
      | npunif _ => simp [swapDraws] at h
      | choice _ => simp [swapDraws] at h
      | mutant _ => simp [swapDraws] at h
      | parents _ => simp [swapDraws] at h
      | inits _ => simp [swapDraws] at h
      | vec _ => simp [swapDraws] at h

theorem ptEvalMember_ok {cfg : PTCfg} {s s' : PopSt} {t1 : Tracker} {tape1 : Tape} {score : F} (hs1 : tape1 <:+ s.tape)
    (h : ptEvalMember cfg s t1 tape1 score = .ok s') :
    ∃ m m', s.members[s.cur]? = some m ∧ s'.members = s.members.set s.cur m' ∧ m'.initL = m.initL ∧ s'.tape <:+ s.tape ∧
      m'.tr.posNew = m.tr.posNew ∧
      ∀ log, Grounded log m.tr → Grounded (log ++ [(m.tr.posNew, score)]) m'.tr := by
  unfold ptEvalMember at h
  cases hm : s.members[s.cur]? with
  | none => rw [hm] at h; simp at h
  | some m =>
    rw [hm] at h
    simp only at h
    cases hev : localEvaluate cfg.member { m with tape := tape1 } score with
    | error e => rw [hev] at h; simp at h
    | ok m' =>
      rw [hev] at h
      simp only [Except.ok.injEq] at h
      subst h
      obtain ⟨hsuf2, hil2, accept, htr2⟩ := localEvaluate_spec hev
      refine ⟨m, _, rfl, rfl, hil2, hsuf2.trans hs1, ?_, ?_⟩
      · simp only; rw [htr2]; exact evalWith_posNew _ _ _ _
      · intro log g
        simp only
        rw [htr2]
        exact grounded_evalWith g cfg.member score accept

theorem ptEvaluate_ok {cfg : PTCfg} {s s' : PopSt} {score : F} (h : ptEvaluate cfg s score = .ok s') :
    ∃ m m', s.members[s.cur]? = some m ∧ s'.members = s.members.set s.cur m' ∧ m'.initL = m.initL ∧ s'.tape <:+ s.tape ∧
      m'.tr.posNew = m.tr.posNew ∧
      ∀ log, Grounded log m.tr → Grounded (log ++ [(m.tr.posNew, score)]) m'.tr := by
  unfold ptEvaluate at h
  simp only at h
  split at h
  · simp at h
  · cases hsw : ptSwapTape cfg s (s.tr.setScoreNew score).nthTrial with
    | error e => rw [hsw] at h; simp at h
    | ok tape1 =>
      rw [hsw] at h
      simp only at h
      have hs1 : tape1 <:+ s.tape := by
        unfold ptSwapTape at hsw
        split at hsw
        · exact swapDraws_suffix _ _ _ hsw
        · simp only [Except.ok.injEq] at hsw; subst hsw; exact List.suffix_refl _
      exact ptEvalMember_ok hs1 h

theorem ptIterate_ok {cfg : PTCfg} {sp : Space} {f : Pos → Bool} (hgeo : cfg.member.geo = sp.geo) (hsp : SpaceOK sp)
    {s s' : PopSt} {p : Pos} (ht : TapeOK sp f s.tape) (h : ptIterate cfg s = .ok (p, s')) :
    ∃ idx m m', s.members[idx]? = some m ∧ idx < s.members.length ∧
      s'.members = s.members.set idx m' ∧ m'.initL = m.initL ∧ m'.tr.posNew = some p ∧ SameTracked m.tr m'.tr ∧
      s'.cur = idx ∧ s'.tape <:+ s.tape ∧ InSpace sp p ∧ f p = true := by
  unfold ptIterate at h
  simp only [bind, Except.bind, pure, Except.pure] at h
  cases hpk : s.pick with
  | error e => rw [hpk] at h; simp at h
  | ok x =>
    obtain ⟨idx, m⟩ := x
    rw [hpk] at h
    simp only at h
    cases hit : localIterate cfg.member { m with tape := s.tape } with
    | error e => rw [hit] at h; simp at h
    | ok y =>
      obtain ⟨q, m'⟩ := y
      rw [hit] at h
      simp only [Except.ok.injEq, Prod.mk.injEq] at h
      obtain ⟨e1, e2⟩ := h
      subst e1 e2
      obtain ⟨hget, hidx⟩ := pick_spec hpk
      obtain ⟨hsuf, _, _, htr, hil, _⟩ := localIterate_spec hit
      obtain ⟨hin, hfe⟩ := proposal_ok (s := { m with tape := s.tape }) hgeo hsp ht hit
      exact ⟨idx, m, _, hget, hidx, rfl, hil, by simp only; rw [htr]; rfl,
        by simp only; rw [htr]; exact sameTracked_trackNewPos _ _, rfl, hsuf, hin, hfe⟩

theorem pt_ok (cfg : PTCfg) (sp : Space) (f : Pos → Bool) (hgeo : cfg.member.geo = sp.geo) (hsp : SpaceOK sp) :
    PopOK (ptBackend cfg) (fun s => s) (fun _ => True) sp f :=
  { initPos := fun _ _ _ _ h => ⟨trivial, ptInitPos_ok h⟩
    evalInit := fun _ _ _ _ h => ⟨trivial, ptEvalInit_ok h⟩
    finishInit := fun _ _ h => by simp only [ptBackend, Except.ok.injEq] at h; exact h.symm
    iterate := fun _ _ _ ht _ _ h => ⟨trivial, ptIterate_ok hgeo hsp ht h⟩
    evaluate := fun _ _ _ _ h => ⟨trivial, ptEvaluate_ok h⟩ }

/-! #### particle swarm -/

theorem randomIteration_cases {cfg : LocalCfg} {tape rest : Tape} {p : Pos} {k : Tape → Except Err (Pos × Tape)}
    (h : randomIteration cfg tape k = .ok (p, rest)) :
    ∃ x t1, tape = Draw.unif x :: t1 ∧ ((moveRandomLoop t1 = .ok (p, rest)) ∨ k t1 = .ok (p, rest)) := by
  unfold randomIteration at h
  split at h
  · rename_i x t1
    split at h
    · exact ⟨x, t1, rfl, Or.inl h⟩
    · exact ⟨x, t1, rfl, Or.inr h⟩
  · simp at h
  · simp at h

theorem movePart_inSpace {sp : Space} (hsp : SpaceOK sp) (p : Pos) (v : List F)
    (h1 : p.length = sp.dims.length) (h2 : v.length = sp.dims.length) : InSpace sp (movePart p v sp.maxPositions) := by
  unfold InSpace Space.sizes
  apply inMax_inSpace
  apply movePart_inMax p v _ (by simp [Space.maxPositions, h1]) (by simp [Space.maxPositions, h2])
  intro m hm
  simp only [Space.maxPositions, List.mem_map] at hm
  obtain ⟨d, hd, rfl⟩ := hm
  have := hsp d hd
  omega

theorem spiralClip_inSpace {sp : Space} (hsp : SpaceOK sp) (v : List F) (hlen : v.length = sp.dims.length) (hn : noNan v = true) :
    InSpace sp (spiralClip v sp.maxPositions) := by
  unfold InSpace Space.sizes
  apply inMax_inSpace
  apply spiralClip_inMax v _ (by simp [Space.maxPositions, hlen]) _ hn
  intro m hm
  simp only [Space.maxPositions, List.mem_map] at hm
  obtain ⟨d, hd, rfl⟩ := hm
  have := hsp d hd
  omega

/-- the first proposal of a particle: in the space, the tape only consumed -/
theorem moveLinear_ok {cfg : LocalCfg} {sp : Space} {f : Pos → Bool} (hgeo : cfg.geo = sp.geo) (hsp : SpaceOK sp)
    {m : Local} {tape rest : Tape} {p : Pos} (ht : TapeOK sp f tape) (h : moveLinear cfg m tape = .ok (p, rest)) :
    rest <:+ tape ∧ InSpace sp p := by
  unfold moveLinear at h
  obtain ⟨x, t1, rfl, hc | hc⟩ := randomIteration_cases h
  · obtain ⟨a, b, _⟩ := moveRandomLoop_spec hc
    exact ⟨a.trans (List.suffix_cons _ _), ht.rnd p (List.mem_cons_of_mem _ b)⟩
  · split at hc
    · rename_i pos velo rest'
      split at hc
      · simp at hc
      · simp only [Except.ok.injEq, Prod.mk.injEq] at hc
        obtain ⟨e1, e2⟩ := hc
        subst e1 e2
        obtain ⟨l1, l2⟩ := ht.part pos velo (by simp)
        refine ⟨(List.suffix_cons _ _).trans (List.suffix_cons _ _), ?_⟩
        rw [hgeo]; exact movePart_inSpace hsp pos velo l1 l2
    · simp at hc
    · simp at hc

theorem moveSpiral_ok {cfg : LocalCfg} {sp : Space} {f : Pos → Bool} (hgeo : cfg.geo = sp.geo) (hsp : SpaceOK sp)
    {tape rest : Tape} {p : Pos} (ht : TapeOK sp f tape) (h : moveSpiral cfg tape = .ok (p, rest)) :
    rest <:+ tape ∧ InSpace sp p := by
  unfold moveSpiral at h
  obtain ⟨x, t1, rfl, hc | hc⟩ := randomIteration_cases h
  · obtain ⟨a, b, _⟩ := moveRandomLoop_spec hc
    exact ⟨a.trans (List.suffix_cons _ _), ht.rnd p (List.mem_cons_of_mem _ b)⟩
  · split at hc
    · rename_i v rest'
      simp only [Except.ok.injEq, Prod.mk.injEq] at hc
      obtain ⟨e1, e2⟩ := hc
      subst e1 e2
      obtain ⟨l1, l2⟩ := ht.spiral v (by simp)
      refine ⟨(List.suffix_cons _ _).trans (List.suffix_cons _ _), ?_⟩
      rw [hgeo]; exact spiralClip_inSpace hsp v l1 l2
    · simp at hc
    · simp at hc

theorem askFeas_spec {p : Pos} {tape rest : Tape} {ok : Bool} (h : askFeas p tape = .ok (ok, rest)) :
    tape = Draw.feas p ok :: rest := by
  unfold askFeas at h
  split at h
  · rename_i q ok' rest'
    split at h
    · simp at h
    · rename_i hq
      simp only [Except.ok.injEq, Prod.mk.injEq] at h
      obtain ⟨h1, h2⟩ := h
      have : q = p := by simpa using hq
      subst h1 h2 this
      rfl
  · simp at h
  · simp at h

theorem psoIterate_ok {cfg : LocalCfg} {sp : Space} {f : Pos → Bool} (hgeo : cfg.geo = sp.geo) (hsp : SpaceOK sp)
    {s s' : PopSt} {p : Pos} (ht : TapeOK sp f s.tape) (h : psoIterate cfg s = .ok (p, s')) :
    ∃ idx m m', s.members[idx]? = some m ∧ idx < s.members.length ∧
      s'.members = s.members.set idx m' ∧ m'.initL = m.initL ∧ m'.tr.posNew = some p ∧ SameTracked m.tr m'.tr ∧
      s'.cur = idx ∧ s'.tape <:+ s.tape ∧ InSpace sp p ∧ f p = true := by
  unfold psoIterate at h
  simp only [bind, Except.bind, pure, Except.pure] at h
  cases hpk : s.pick with
  | error e => rw [hpk] at h; simp at h
  | ok x =>
    obtain ⟨idx, m⟩ := x
    rw [hpk] at h
    simp only at h
    obtain ⟨hget, hidx⟩ := pick_spec hpk
    cases hml : moveLinear cfg m s.tape with
    | error e => rw [hml] at h; simp at h
    | ok y =>
      obtain ⟨q, tape1⟩ := y
      rw [hml] at h
      simp only at h
      obtain ⟨hs1, hin1⟩ := moveLinear_ok hgeo hsp ht hml
      cases haf : askFeas q tape1 with
      | error e => rw [haf] at h; simp at h
      | ok z =>
        obtain ⟨ok, tape2⟩ := z
        rw [haf] at h
        simp only at h
        have e := askFeas_spec haf
        have hs2 : tape2 <:+ s.tape := (by rw [e]; exact List.suffix_cons _ _ : tape2 <:+ tape1).trans hs1
        by_cases hok : ok = true
        · simp only [hok, if_true, Except.ok.injEq, Prod.mk.injEq] at h
          obtain ⟨e1, e2⟩ := h
          subst e1 e2
          have hfe : f q = true := by
            have := ht.feas q ok (hs1.subset (by rw [e]; simp)); rw [← this]; exact hok
          exact ⟨idx, m, _, hget, hidx, rfl, rfl, rfl, sameTracked_trackNewPos _ _, rfl, hs2, hin1, hfe⟩
        · simp only [hok, Bool.false_eq_true, if_false] at h
          cases hmc : moveClimb cfg.geo (some q) (some 1) s.tape.length tape2 with
          | error e' => rw [hmc] at h; simp at h
          | ok w =>
            obtain ⟨q2, tape3⟩ := w
            rw [hmc] at h
            simp only [Except.ok.injEq, Prod.mk.injEq] at h
            obtain ⟨e1, e2⟩ := h
            subst e1 e2
            obtain ⟨a, b, c⟩ := moveClimb_spec hmc
            have ht2 := ht.suffix hs2
            have hfe : f q2 = true := (ht2.feas q2 true b).symm
            have hin : InSpace sp q2 := by
              cases c with
              | random hr => exact ht2.rnd q2 hr
              | clipped l v hd hp =>
                obtain ⟨hlen, hn⟩ := ht2.dist l v hd
                rw [hp, hgeo]; exact clipped_inSpace hsp v hlen hn
            exact ⟨idx, m, _, hget, hidx, rfl, rfl, rfl,
              { pb := rfl, sb := rfl, pc := rfl, sc := rfl, pv := rfl, sv := rfl }, rfl, a.trans hs2, hin, hfe⟩

theorem pso_ok (cfg : LocalCfg) (sp : Space) (f : Pos → Bool) (hgeo : cfg.geo = sp.geo) (hsp : SpaceOK sp) :
    PopOK (psoBackend cfg) (fun s => s) (fun _ => True) sp f :=
  { initPos := fun _ _ _ _ h => ⟨trivial, ptInitPos_ok h⟩
    evalInit := fun _ _ _ _ h => ⟨trivial, ptEvalInit_ok h⟩
    finishInit := fun _ _ h => by simp only [psoBackend, Except.ok.injEq] at h; exact h.symm
    iterate := fun _ _ _ ht _ _ h => ⟨trivial, psoIterate_ok hgeo hsp ht h⟩
    evaluate := fun _ _ _ _ h => ⟨trivial, ptEvalMember_ok (List.suffix_refl _) h⟩ }

/-! #### spiral -/

theorem spiralIterate_ok {cfg : LocalCfg} {sp : Space} {f : Pos → Bool} (hgeo : cfg.geo = sp.geo) (hsp : SpaceOK sp)
    {s s' : PopSt} {p : Pos} (ht : TapeOK sp f s.tape) (h : spiralIterate cfg s = .ok (p, s')) :
    ∃ idx m m', s.members[idx]? = some m ∧ idx < s.members.length ∧
      s'.members = s.members.set idx m' ∧ m'.initL = m.initL ∧ m'.tr.posNew = some p ∧ SameTracked m.tr m'.tr ∧
      s'.cur = idx ∧ s'.tape <:+ s.tape ∧ InSpace sp p ∧ f p = true := by
  unfold spiralIterate at h
  simp only [bind, Except.bind, pure, Except.pure] at h
  cases hpk : s.pick with
  | error e => rw [hpk] at h; simp at h
  | ok x =>
    obtain ⟨idx, m⟩ := x
    rw [hpk] at h
    simp only at h
    obtain ⟨hget, hidx⟩ := pick_spec hpk
    cases hml : moveSpiral cfg s.tape with
    | error e => rw [hml] at h; simp at h
    | ok y =>
      obtain ⟨q, tape1⟩ := y
      rw [hml] at h
      simp only at h
      obtain ⟨hs1, hin1⟩ := moveSpiral_ok hgeo hsp ht hml
      cases haf : askFeas q tape1 with
      | error e => rw [haf] at h; simp at h
      | ok z =>
        obtain ⟨ok, tape2⟩ := z
        rw [haf] at h
        simp only at h
        have e := askFeas_spec haf
        have hs2 : tape2 <:+ s.tape := (by rw [e]; exact List.suffix_cons _ _ : tape2 <:+ tape1).trans hs1
        by_cases hok : ok = true
        · simp only [hok, if_true, Except.ok.injEq, Prod.mk.injEq] at h
          obtain ⟨e1, e2⟩ := h
          subst e1 e2
          have hfe : f q = true := by
            have := ht.feas q ok (hs1.subset (by rw [e]; simp)); rw [← this]; exact hok
          exact ⟨idx, m, _, hget, hidx, rfl, rfl, rfl, sameTracked_trackNewPos _ _, rfl, hs2, hin1, hfe⟩
        · simp only [hok, Bool.false_eq_true, if_false] at h
          cases hit : localIterate cfg { ({ m with tr := m.tr.trackNewPos q } : Local) with tape := tape2 } with
          | error e' => rw [hit] at h; simp at h
          | ok w =>
            obtain ⟨q2, m2⟩ := w
            rw [hit] at h
            simp only [Except.ok.injEq, Prod.mk.injEq] at h
            obtain ⟨e1, e2⟩ := h
            subst e1 e2
            obtain ⟨hsuf, _, _, htr, hil, _⟩ := localIterate_spec hit
            obtain ⟨hin, hfe⟩ := proposal_ok (s := { ({ m with tr := m.tr.trackNewPos q } : Local) with tape := tape2 })
              hgeo hsp (ht.suffix hs2) hit
            exact ⟨idx, m, _, hget, hidx, rfl, hil, by simp only; rw [htr]; rfl,
              by simp only; rw [htr]
                 exact { pb := rfl, sb := rfl, pc := rfl, sc := rfl, pv := rfl, sv := rfl },
              rfl, hsuf.trans hs2, hin, hfe⟩

theorem spiralEvaluate_ok {s s' : PopSt} {score : F} (h : spiralEvaluate s score = .ok s') :
    ∃ m m', s.members[s.cur]? = some m ∧ s'.members = s.members.set s.cur m' ∧ m'.initL = m.initL ∧ s'.tape <:+ s.tape ∧
      m'.tr.posNew = m.tr.posNew ∧
      ∀ log, Grounded log m.tr → Grounded (log ++ [(m.tr.posNew, score)]) m'.tr := by
  unfold spiralEvaluate at h
  cases hm : s.members[s.cur]? with
  | none => rw [hm] at h; simp at h
  | some m =>
    rw [hm] at h
    simp only [Except.ok.injEq] at h
    subst h
    exact ⟨m, _, rfl, rfl, rfl, List.suffix_refl _, spiralEvaluate_posNew _ _, fun log g => grounded_spiralEvaluate g score⟩

theorem spiral_ok (cfg : LocalCfg) (sp : Space) (f : Pos → Bool) (hgeo : cfg.geo = sp.geo) (hsp : SpaceOK sp) :
    PopOK (spiralBackend cfg) (fun s => s) (fun _ => True) sp f :=
  { initPos := fun _ _ _ _ h => ⟨trivial, ptInitPos_ok h⟩
    evalInit := fun _ _ _ _ h => ⟨trivial, ptEvalInit_ok h⟩
    finishInit := fun _ _ h => by simp only [spiralBackend, Except.ok.injEq] at h; exact h.symm
    iterate := fun _ _ _ ht _ _ h => ⟨trivial, spiralIterate_ok hgeo hsp ht h⟩
    evaluate := fun _ _ _ _ h => ⟨trivial, spiralEvaluate_ok h⟩ }

/-! ### the property theorems -/

/-- C01 + C02, parallel tempering -/
theorem C01_C02_pt_positions {cfg : PTCfg} {sp : Space} {obj : Obj} {c : Call} {f : Pos → Bool} {tape0 : Tape}
    {inits0 : List (List Pos)} {d d' : DState PopSt} {r : CallResult}
    (hgeo : cfg.member.geo = sp.geo) (hsp : SpaceOK sp) (ht : TapeOK sp f tape0)
    (hi : ∀ l ∈ inits0, ∀ q ∈ l, InSpace sp q ∧ f q = true)
    (hP : Inv (fun s : PopSt => s) (fun _ => True) sp tape0 inits0 d) (hn : 0 < c.nIter) (h : searchCall (ptBackend cfg) sp obj c d = .ok (d', r)) :
    ∀ p ∈ C04.newPos d d', InSpace sp p ∧ f p = true :=
  (pop_call (pt_ok cfg sp f hgeo hsp) ht hi hP hn h).2

/-- C19, every system of a parallel tempering population -/
theorem C19_pt_members_grounded {cfg : PTCfg} {sp : Space} {obj : Obj} {c : Call} {f : Pos → Bool} {tape0 : Tape}
    {inits0 : List (List Pos)} {d d' : DState PopSt} {r : CallResult}
    (hgeo : cfg.member.geo = sp.geo) (hsp : SpaceOK sp) (ht : TapeOK sp f tape0)
    (hi : ∀ l ∈ inits0, ∀ q ∈ l, InSpace sp q ∧ f q = true)
    (hP : Inv (fun s : PopSt => s) (fun _ => True) sp tape0 inits0 d) (hn : 0 < c.nIter) (h : searchCall (ptBackend cfg) sp obj c d = .ok (d', r)) :
    ∀ m ∈ d'.bst.members, Grounded (evalLog d') m.tr :=
  (pop_call (pt_ok cfg sp f hgeo hsp) ht hi hP hn h).1.grounded

/-- C01 + C02, particle swarm (linear move, outer constraint check, `move_climb` fallback) -/
theorem C01_C02_pso_positions {cfg : LocalCfg} {sp : Space} {obj : Obj} {c : Call} {f : Pos → Bool} {tape0 : Tape}
    {inits0 : List (List Pos)} {d d' : DState PopSt} {r : CallResult}
    (hgeo : cfg.geo = sp.geo) (hsp : SpaceOK sp) (ht : TapeOK sp f tape0)
    (hi : ∀ l ∈ inits0, ∀ q ∈ l, InSpace sp q ∧ f q = true)
    (hP : Inv (fun s : PopSt => s) (fun _ => True) sp tape0 inits0 d) (hn : 0 < c.nIter) (h : searchCall (psoBackend cfg) sp obj c d = .ok (d', r)) :
    ∀ p ∈ C04.newPos d d', InSpace sp p ∧ f p = true :=
  (pop_call (pso_ok cfg sp f hgeo hsp) ht hi hP hn h).2

/-- C19, every particle: the fallback position is what the particle records (fix d993248) -/
theorem C19_pso_members_grounded {cfg : LocalCfg} {sp : Space} {obj : Obj} {c : Call} {f : Pos → Bool} {tape0 : Tape}
    {inits0 : List (List Pos)} {d d' : DState PopSt} {r : CallResult}
    (hgeo : cfg.geo = sp.geo) (hsp : SpaceOK sp) (ht : TapeOK sp f tape0)
    (hi : ∀ l ∈ inits0, ∀ q ∈ l, InSpace sp q ∧ f q = true)
    (hP : Inv (fun s : PopSt => s) (fun _ => True) sp tape0 inits0 d) (hn : 0 < c.nIter) (h : searchCall (psoBackend cfg) sp obj c d = .ok (d', r)) :
    ∀ m ∈ d'.bst.members, Grounded (evalLog d') m.tr :=
  (pop_call (pso_ok cfg sp f hgeo hsp) ht hi hP hn h).1.grounded

/-- C01 + C02, spiral optimization -/
theorem C01_C02_spiral_positions {cfg : LocalCfg} {sp : Space} {obj : Obj} {c : Call} {f : Pos → Bool} {tape0 : Tape}
    {inits0 : List (List Pos)} {d d' : DState PopSt} {r : CallResult}
    (hgeo : cfg.geo = sp.geo) (hsp : SpaceOK sp) (ht : TapeOK sp f tape0)
    (hi : ∀ l ∈ inits0, ∀ q ∈ l, InSpace sp q ∧ f q = true)
    (hP : Inv (fun s : PopSt => s) (fun _ => True) sp tape0 inits0 d) (hn : 0 < c.nIter) (h : searchCall (spiralBackend cfg) sp obj c d = .ok (d', r)) :
    ∀ p ∈ C04.newPos d d', InSpace sp p ∧ f p = true :=
  (pop_call (spiral_ok cfg sp f hgeo hsp) ht hi hP hn h).2

/-- C19, every spiral member -/
theorem C19_spiral_members_grounded {cfg : LocalCfg} {sp : Space} {obj : Obj} {c : Call} {f : Pos → Bool} {tape0 : Tape}
    {inits0 : List (List Pos)} {d d' : DState PopSt} {r : CallResult}
    (hgeo : cfg.geo = sp.geo) (hsp : SpaceOK sp) (ht : TapeOK sp f tape0)
    (hi : ∀ l ∈ inits0, ∀ q ∈ l, InSpace sp q ∧ f q = true)
    (hP : Inv (fun s : PopSt => s) (fun _ => True) sp tape0 inits0 d) (hn : 0 < c.nIter) (h : searchCall (spiralBackend cfg) sp obj c d = .ok (d', r)) :
    ∀ m ∈ d'.bst.members, Grounded (evalLog d') m.tr :=
  (pop_call (spiral_ok cfg sp f hgeo hsp) ht hi hP hn h).1.grounded

end GFO.PopRuns
