/-
  Whole-run theorems for the complete model of `ParallelTemperingOptimizer` (GFO.Model.Population: a round-robin over
  complete `SimulatedAnnealingOptimizer` systems on one shared oracle tape), through the real driver model, for every
  population, configuration, objective, call, prior state and tape:

    C01_C02_pt_positions      every position a call evaluates is a feasible position of the space
    C19_pt_members_grounded   after the call the tracked best / current pair and the valid lists of EVERY system are
                              (position, score) pairs the optimizer really evaluated (or still `(None, -inf)`)
-/
import GFO.Model.Population
import GFO.Props.LocalRuns
namespace GFO.PopRuns
open GFO GFO.C01 GFO.C19 GFO.LocalRuns

theorem pick_spec {s : PopSt} {idx : Nat} {m : Local} (h : s.pick = .ok (idx, m)) :
    s.members[idx]? = some m ∧ idx < s.members.length := by
  unfold PopSt.pick at h
  split at h
  · simp at h
  · simp only at h
    split at h
    · rename_i m' hm
      simp only [Except.ok.injEq, Prod.mk.injEq] at h
      obtain ⟨h1, h2⟩ := h
      subst h1 h2
      exact ⟨hm, by
        rcases Nat.eq_zero_or_pos s.members.length with h0 | h0
        · omega
        · exact Nat.mod_lt _ h0⟩
    · simp at h

/-- the run invariant of the population -/
structure Inv (tape0 : Tape) (inits0 : List (List Pos)) (d : DState PopSt) : Prop where
  tape : d.bst.tape <:+ tape0
  inits : d.bst.members.map (·.initL) = inits0
  len : d.posL.length = d.scoreL.length
  grounded : ∀ m ∈ d.bst.members, Grounded (evalLog d) m.tr

theorem map_initL_set (ms : List Local) (idx : Nat) (m m' : Local) (hm : ms[idx]? = some m) (hi : m'.initL = m.initL) :
    (ms.set idx m').map (·.initL) = ms.map (·.initL) := by
  rw [List.map_set]
  apply List.ext_getElem?
  intro k
  by_cases hk : idx = k
  · subst hk
    rw [List.getElem?_set]
    simp only [if_true, List.length_map]
    split
    · rw [hi, List.getElem?_map, hm]; rfl
    · rename_i hlt
      rw [List.getElem?_map, List.getElem?_eq_none (by omega)]; rfl
  · rw [List.getElem?_set_ne hk]

/-- the swap only consumes draws -/
theorem swapDraws_suffix : ∀ (n : Nat) (t r : Tape), swapDraws n t = .ok r → r <:+ t := by
  intro n
  induction n with
  | zero => intro t r h; simp only [swapDraws, Except.ok.injEq] at h; subst h; exact List.suffix_refl _
  | succ k ih =>
    intro t r h
    cases t with
    | nil => simp [swapDraws] at h
    | cons x xs =>
      cases x with
      | unif _ => simp only [swapDraws] at h; exact (ih xs r h).trans (List.suffix_cons _ _)
      | climb _ _ => simp [swapDraws] at h
      | dist _ _ => simp [swapDraws] at h
      | rnd _ => simp [swapDraws] at h
      | feas _ _ => simp [swapDraws] at h
      | accept _ _ => simp [swapDraws] at h

theorem ptEvaluate_spec {cfg : PTCfg} {s s' : PopSt} {score : F} (h : ptEvaluate cfg s score = .ok s') :
    ∃ m tape1 m', s.members[s.cur]? = some m ∧ tape1 <:+ s.tape ∧
      localEvaluate cfg.member { m with tape := tape1 } score = .ok m' ∧
      s'.members = s.members.set s.cur { m' with tape := [] } ∧ s'.tape = m'.tape := by
  unfold ptEvaluate at h
  simp only at h
  split at h
  · simp at h
  · cases hsw : ptSwapTape cfg s (s.tr.setScoreNew score).nthTrial with
    | error e => rw [hsw] at h; simp at h
    | ok tape1 =>
      rw [hsw] at h
      simp only at h
      have hs1 : tape1 <:+ s.tape := by
        unfold ptSwapTape at hsw
        split at hsw
        · exact swapDraws_suffix _ _ _ hsw
        · simp only [Except.ok.injEq] at hsw; subst hsw; exact List.suffix_refl _
      unfold ptEvalMember at h
      cases hm : s.members[s.cur]? with
      | none => rw [hm] at h; simp at h
      | some m =>
        rw [hm] at h
        simp only at h
        cases hev : localEvaluate cfg.member { m with tape := tape1 } score with
        | error e => rw [hev] at h; simp at h
        | ok m' =>
          rw [hev] at h
          simp only [Except.ok.injEq] at h
          subst h
          exact ⟨m, tape1, m', rfl, hs1, hev, rfl, rfl⟩

theorem mem_set_cases {α : Type} {ms : List α} {idx : Nat} {a x : α} (h : x ∈ ms.set idx a) : x = a ∨ x ∈ ms := by
  rcases List.mem_or_eq_of_mem_set h with h | h
  · exact Or.inr h
  · exact Or.inl h

/-- one driver step of the complete population optimizer keeps the invariant and emits a feasible position of the space -/
theorem step_inv {cfg : PTCfg} {sp : Space} {obj : Obj} {c : Call} {f : Pos → Bool} {tape0 : Tape} {inits0 : List (List Pos)}
    (hgeo : cfg.member.geo = sp.geo) (hsp : SpaceOK sp) (ht : TapeOK sp f tape0)
    (hi : ∀ l ∈ inits0, ∀ q ∈ l, InSpace sp q ∧ f q = true)
    (i : Nat) (d d1 : DState PopSt) (cs cs1 : CState) (p : Pos) (v : Value) (e : Eval)
    (hP : Inv tape0 inits0 d) (sf : StepFacts sp obj c i d d1 cs cs1 p v e)
    (hb : BStep (ptBackend cfg) (i < cs.nInitsNorm) d.bst d1.bst p e.res.score) :
    Inv tape0 inits0 d1 ∧ (InSpace sp p ∧ f p = true) := by
  have hlog := evalLog_append hP.len sf.posL sf.scoreL
  have hlen : d1.posL.length = d1.scoreL.length := by rw [sf.posL, sf.scoreL]; simp [hP.len]
  rcases hb with ⟨_, s1, h1, h2⟩ | ⟨_, s0, s1, h0, h1, h2⟩
  · -- start-up step
    have h1' : ptInitPos d.bst = .ok (p, s1) := h1
    unfold ptInitPos at h1'
    simp only [bind, Except.bind, pure, Except.pure] at h1'
    cases hpk : d.bst.pick with
    | error e' => rw [hpk] at h1'; simp at h1'
    | ok x =>
      obtain ⟨idx, m⟩ := x
      rw [hpk] at h1'
      simp only at h1'
      cases hip : localInitPos m with
      | error e' => rw [hip] at h1'; simp at h1'
      | ok y =>
        obtain ⟨q, m'⟩ := y
        rw [hip] at h1'
        simp only [Except.ok.injEq, Prod.mk.injEq] at h1'
        obtain ⟨e1, e2⟩ := h1'
        subst e1 e2
        obtain ⟨hget, hidx⟩ := pick_spec hpk
        obtain ⟨hq, _, htr, hil, _⟩ := localInitPos_spec hip
        -- evaluate_init on the member just picked
        have h2' : ptEvalInit _ e.res.score = .ok d1.bst := h2
        unfold ptEvalInit at h2'
        simp only [List.getElem?_set_self hidx] at h2'
        simp only [Except.ok.injEq] at h2'
        have hmemq : q ∈ m.initL := List.mem_of_getElem? hq
        have hml : m.initL ∈ inits0 := by
          rw [← hP.inits]; exact List.mem_map.mpr ⟨m, List.mem_of_getElem? hget, rfl⟩
        refine ⟨{ tape := ?_, inits := ?_, len := hlen, grounded := ?_ }, hi _ hml q hmemq⟩
        · rw [← h2']; exact hP.tape
        · rw [← h2']
          simp only [List.set_set]
          rw [map_initL_set d.bst.members idx m _ hget (by simp [hil])]
          exact hP.inits
        · rw [← h2', hlog]
          simp only [List.set_set]
          intro x hx
          rcases mem_set_cases hx with hx | hx
          · subst hx
            simp only
            have g1 := grounded_trackNewPos (hP.grounded m (List.mem_of_getElem? hget)) q
            have := grounded_evaluateInit (t := m'.tr) (by rw [htr]; exact g1) e.res.score
            rw [htr] at this ⊢
            simpa [Tracker.trackNewPos] using this
          · exact (hP.grounded x hx).mono _
  · -- iteration step
    have hs0 : s0 = d.bst := by
      rcases h0 with h0 | h0
      · exact h0
      · simp only [ptBackend, Except.ok.injEq] at h0; exact h0.symm
    subst hs0
    have h1' : ptIterate cfg d.bst = .ok (p, s1) := h1
    unfold ptIterate at h1'
    simp only [bind, Except.bind, pure, Except.pure] at h1'
    cases hpk : d.bst.pick with
    | error e' => rw [hpk] at h1'; simp at h1'
    | ok x =>
      obtain ⟨idx, m⟩ := x
      rw [hpk] at h1'
      simp only at h1'
      cases hit : localIterate cfg.member { m with tape := d.bst.tape } with
      | error e' => rw [hit] at h1'; simp at h1'
      | ok y =>
        obtain ⟨q, m'⟩ := y
        rw [hit] at h1'
        simp only [Except.ok.injEq, Prod.mk.injEq] at h1'
        obtain ⟨e1, e2⟩ := h1'
        subst e1 e2
        obtain ⟨hget, hidx⟩ := pick_spec hpk
        obtain ⟨hsuf, _, _, htr, hil, _⟩ := localIterate_spec hit
        have hgood := proposal_ok (s := { m with tape := d.bst.tape }) hgeo hsp (ht.suffix hP.tape) hit
        have h2' : ptEvaluate cfg _ e.res.score = .ok d1.bst := h2
        obtain ⟨mm, tape1, m2, hmm, hs1, hev, hmem2, htape2⟩ := ptEvaluate_spec h2'
        simp only [List.getElem?_set_self hidx, Option.some.injEq] at hmm
        subst hmm
        obtain ⟨hsuf2, hil2, accept, htr2⟩ := localEvaluate_spec hev
        simp only at hs1 hsuf2 hil2 htr2
        refine ⟨{ tape := ?_, inits := ?_, len := hlen, grounded := ?_ }, hgood⟩
        · rw [htape2]; exact ((hsuf2.trans hs1).trans hsuf).trans hP.tape
        · rw [hmem2]
          simp only [List.set_set]
          rw [map_initL_set d.bst.members idx m _ hget (by simp [hil2, hil])]
          exact hP.inits
        · rw [hmem2, hlog]
          simp only [List.set_set]
          intro x hx
          rcases mem_set_cases hx with hx | hx
          · subst hx
            simp only
            rw [htr2]
            have g1 : Grounded (evalLog d) m'.tr := by
              rw [htr]; exact grounded_trackNewPos (hP.grounded m (List.mem_of_getElem? hget)) q
            have := grounded_evalWith g1 cfg.member e.res.score accept
            rw [htr] at this ⊢
            simpa [Tracker.trackNewPos] using this
          · exact (hP.grounded x hx).mono _

/-- C01 + C02 + C19 for one `search()` call of the complete parallel tempering optimizer -/
theorem pt_call {cfg : PTCfg} {sp : Space} {obj : Obj} {c : Call} {f : Pos → Bool} {tape0 : Tape} {inits0 : List (List Pos)}
    {d d' : DState PopSt} {r : CallResult}
    (hgeo : cfg.member.geo = sp.geo) (hsp : SpaceOK sp) (ht : TapeOK sp f tape0)
    (hi : ∀ l ∈ inits0, ∀ q ∈ l, InSpace sp q ∧ f q = true)
    (hP : Inv tape0 inits0 d) (hn : 0 < c.nIter)
    (h : searchCall (ptBackend cfg) sp obj c d = .ok (d', r)) :
    Inv tape0 inits0 d' ∧ ∀ p ∈ C04.newPos d d', InSpace sp p ∧ f p = true := by
  obtain ⟨cs, d1, cs1, tr, _, hfin, T, hP1, hQ⟩ :=
    searchCall_inv (P := fun d _ => Inv tape0 inits0 d) (Q := fun t => InSpace sp t.pos ∧ f t.pos = true)
      (fun i d d1 cs cs1 p v e hp sf hb => step_inv hgeo hsp ht hi i d d1 cs cs1 p v e hp sf hb) h hn (fun _ _ => hP)
  obtain ⟨hrows, hposL, hscoreL, _, _, _, _, _, _, _, hbst, _⟩ := finishSearch_ok hfin
  constructor
  · exact { tape := by rw [hbst]; exact hP1.tape, inits := by rw [hbst]; exact hP1.inits
            len := by rw [hposL, hscoreL]; exact hP1.len
            grounded := by
              have := hP1.grounded
              unfold evalLog at this ⊢
              rw [hposL, hscoreL, hbst]; exact this }
  · intro p hp
    unfold C04.newPos at hp
    rw [hposL, T.posL] at hp
    simp only [List.drop_left] at hp
    obtain ⟨t, ht', rfl⟩ := List.mem_map.mp hp
    exact hQ t ht'

theorem C01_C02_pt_positions {cfg : PTCfg} {sp : Space} {obj : Obj} {c : Call} {f : Pos → Bool} {tape0 : Tape}
    {inits0 : List (List Pos)} {d d' : DState PopSt} {r : CallResult}
    (hgeo : cfg.member.geo = sp.geo) (hsp : SpaceOK sp) (ht : TapeOK sp f tape0)
    (hi : ∀ l ∈ inits0, ∀ q ∈ l, InSpace sp q ∧ f q = true)
    (hP : Inv tape0 inits0 d) (hn : 0 < c.nIter) (h : searchCall (ptBackend cfg) sp obj c d = .ok (d', r)) :
    ∀ p ∈ C04.newPos d d', InSpace sp p ∧ f p = true :=
  (pt_call hgeo hsp ht hi hP hn h).2

/-- C19 for every system of the population -/
theorem C19_pt_members_grounded {cfg : PTCfg} {sp : Space} {obj : Obj} {c : Call} {f : Pos → Bool} {tape0 : Tape}
    {inits0 : List (List Pos)} {d d' : DState PopSt} {r : CallResult}
    (hgeo : cfg.member.geo = sp.geo) (hsp : SpaceOK sp) (ht : TapeOK sp f tape0)
    (hi : ∀ l ∈ inits0, ∀ q ∈ l, InSpace sp q ∧ f q = true)
    (hP : Inv tape0 inits0 d) (hn : 0 < c.nIter) (h : searchCall (ptBackend cfg) sp obj c d = .ok (d', r)) :
    ∀ m ∈ d'.bst.members, Grounded (evalLog d') m.tr :=
  (pt_call hgeo hsp ht hi hP hn h).1.grounded

/-- a freshly constructed population satisfies the invariant -/
theorem inv_fresh (nInits : Nat) (inits : List (List Pos)) (tape : Tape) :
    Inv tape inits ({ nInits := nInits, bst := { members := inits.map (fun l => { initL := l }), tape := tape } } : DState PopSt) :=
  { tape := List.suffix_refl _
    inits := by simp [List.map_map, Function.comp_def]
    len := rfl
    grounded := by
      intro m hm
      obtain ⟨l, _, rfl⟩ := List.mem_map.mp hm
      simpa [evalLog] using grounded_fresh }

end GFO.PopRuns
