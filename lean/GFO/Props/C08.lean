/-
  C08 — every search step terminates under satisfiable constraints (no livelock).

  Three kinds of loops, stated per loop:
    * bounded deterministic loops: `get_direction` stops at a value in [1, start] coprime to |S|; `_init_vertices` draws at most
      100 vertices (+ one random position) per requested vertex; the diagonal grid's retry loop (after fix 602b8e7) steps
      by the direction alone, which generates Z/|S|: within |S| retries it reaches every pointer, hence a feasible one
      whenever one exists (`gridRetry_reaches_every_pointer`);
    * rejection loops with fresh uniform candidates (`move_random`, `_init_random_search`, fill-rest, padding): the loop returns
      at the FIRST feasible draw after exactly that many constraint evaluations (`rejection_returns_at_first_feasible`);
      with a feasible fraction ≥ 1/4 every draw has acceptance probability ≥ 1/4 (trusted i.i.d. generator ⇒ geometric bound);
    * loops whose candidate depends on state: `move_climb` has no dead state - from ANY position every position of the space
      is the image of some draw (`moveClimb_no_dead_state`), and each retry only changes (pos, epsilon_mod); PSO, ES, Spiral,
      GA/DE, Pattern, Powell, Simplex, Direct emit "check, else one fallback kernel" (`guarded`): no loop of their own remains
      (the PSO `while True` livelock of the pinned commit is fixed: d993248).
  The monitor caps the number of constraint evaluations per step on every optimizer and geometry.
-/
import GFO.Props.C02
import GFO.Props.C01
import Mathlib.Data.Fintype.Card
import Mathlib.Data.Fintype.EquivFin
import Mathlib.Data.Finite.Defs
import Mathlib.Tactic.NormNum
import Mathlib.Data.Nat.ModEq
namespace GFO.C08
open GFO

/-- `get_direction` terminates with a generator: within `start` decrements it reaches a value ≥ 1 coprime to |S| -/
theorem getDirection_terminates (S start : Nat) (hS : 0 < S) (h1 : 1 ≤ start) :
    1 ≤ getDirection S start ∧ getDirection S start ≤ start ∧ Nat.Coprime (getDirection S start) S :=
  getDirection_spec S hS start h1

/-- the rejection loops return at the first feasible candidate, after exactly that many constraint evaluations -/
theorem rejection_returns_at_first_feasible (feas : Pos → Bool) (cands : List Pos) (p : Pos) (k : Nat)
    (h : C02.firstFeasible feas cands 0 = some (p, k)) :
    feas p = true ∧ ∃ pre post, cands = pre ++ p :: post ∧ (∀ q ∈ pre, feas q = false) ∧ k = pre.length + 1 := by
  obtain ⟨hp, pre, post, hs, hall, hk⟩ := C02.firstFeasible_spec feas cands 0 p k h
  exact ⟨hp, pre, post, hs, hall, by omega⟩

/-- … and it does return as soon as the candidate stream contains a feasible position -/
theorem rejection_terminates (feas : Pos → Bool) (cands : List Pos) (k0 : Nat) (h : ∃ q ∈ cands, feas q = true) :
    ∃ p k, C02.firstFeasible feas cands k0 = some (p, k) := by
  induction cands generalizing k0 with
  | nil => obtain ⟨q, hq, _⟩ := h; simp at hq
  | cons c cs ih =>
    simp only [C02.firstFeasible]
    by_cases hc : feas c = true
    · exact ⟨c, k0 + 1, by simp [hc]⟩
    · simp only [hc, Bool.false_eq_true, if_false]
      obtain ⟨q, hq, hf⟩ := h
      rcases List.mem_cons.mp hq with e | e
      · subst e; exact absurd hf hc
      · exact ih (k0 + 1) ⟨q, e, hf⟩

/-- one vertex of `_init_vertices` consumes at most 100 vertex draws and at most one random position -/
theorem pickVertex_bounded (have_ : List Pos) (tries : Nat) (d d' : Draws) (v : Pos) (h : pickVertex have_ tries d = .ok (v, d')) :
    d.vtx.length ≤ d'.vtx.length + tries ∧ d.rnd.length ≤ d'.rnd.length + 1 := by
  induction tries generalizing d with
  | zero =>
    simp only [pickVertex, nextRnd] at h
    cases hr : d.rnd with
    | nil => simp [hr] at h
    | cons q qs =>
      simp only [hr, Except.ok.injEq, Prod.mk.injEq] at h
      obtain ⟨_, h2⟩ := h; subst h2
      simp [hr]
  | succ n ih =>
    simp only [pickVertex, nextVtx] at h
    cases hv : d.vtx with
    | nil => simp [hv] at h
    | cons q qs =>
      simp only [hv] at h
      by_cases hc : have_.contains q = true
      · simp only [hc, if_true] at h
        have := ih { d with vtx := qs } h
        simp only at this
        simp [hv]; omega
      · simp only [hc, Bool.false_eq_true, if_false, Except.ok.injEq, Prod.mk.injEq] at h
        obtain ⟨_, h2⟩ := h; subst h2
        simp [hv]

/-- the diagonal grid's retries `p0 + k·d (mod |S|)`, k = 0 … |S|-1, reach EVERY pointer when `d` is coprime to |S|:
    if any feasible position exists the retry loop finds it within |S| retries -/
theorem gridRetry_reaches_every_pointer (S d p0 : Nat) (hS : 0 < S) (hc : Nat.Coprime d S) (q : Nat) (hq : q < S) :
    ∃ k, k < S ∧ (p0 + k * d) % S = q := by
  let f : Fin S → Fin S := fun k => ⟨(p0 + k.val * d) % S, Nat.mod_lt _ hS⟩
  have hinj : Function.Injective f := by
    intro a b hab
    have h1 : (p0 + a.val * d) % S = (p0 + b.val * d) % S := by simpa [f] using congrArg Fin.val hab
    have h2 : p0 + a.val * d ≡ p0 + b.val * d [MOD S] := h1
    have h3 : a.val * d ≡ b.val * d [MOD S] := Nat.ModEq.add_left_cancel' p0 h2
    have h4 : a.val ≡ b.val [MOD S] :=
      Nat.ModEq.cancel_right_of_coprime (by simpa [Nat.coprime_comm] using hc.symm) h3
    exact Fin.ext (Nat.ModEq.eq_of_lt_of_lt h4 a.isLt b.isLt)
  have hsurj : Function.Surjective f := (Finite.injective_iff_surjective (α := Fin S)).mp hinj
  obtain ⟨k, hk⟩ := hsurj ⟨q, hq⟩
  exact ⟨k.val, k.isLt, by simpa [f] using congrArg Fin.val hk⟩

/-! ### `move_climb` has no dead state -/

theorem rintQ_int (z : Int) : rintQ (z : Rat) = z := by
  unfold rintQ
  simp only [Rat.floor_intCast]
  have : ((z : Rat) - ((z : Int) : Rat)) = 0 := by simp
  rw [this]
  have h : (0 : Rat) < 1 / 2 := by norm_num
  simp [h]

/-- a position of the space, handed to `conv2pos` as a float vector, comes back unchanged (whatever the random fallback):
    so from ANY current position and ANY epsilon > 0 every position of the space is the image of some draw of `move_climb`
    - there is no state from which a feasible position is unreachable -/
theorem moveClimb_no_dead_state (target : Pos) (ms : List Int) (size : Nat) (rnd : Pos)
    (hin : C01.inMax ms target) (hM : ∀ m ∈ ms, m ≤ INT64_MAX) :
    conv2pos (target.map F.ofInt) ms size rnd = target := by
  have hclip : clipCastVec (target.map F.ofInt) ms = target := by
    induction target generalizing ms with
    | nil => cases ms <;> simp [clipCastVec]
    | cons z zs ih =>
      cases ms with
      | nil => simp [C01.inMax] at hin
      | cons m ms =>
        obtain ⟨h0, h1, hrest⟩ := hin
        have hmM := hM m (by simp)
        simp only [List.map_cons, clipCastVec, List.cons.injEq]
        refine ⟨?_, ih ms hrest (fun k hk => hM k (by simp [hk]))⟩
        simp only [clipCast, F.ofInt, rintF, rintQ_int, clipF]
        have hz0 : ¬ ((z : Rat) < 0) := by
          have : (0 : Rat) ≤ (z : Rat) := by exact_mod_cast h0
          grind
        have hzm : ¬ ((m : Rat) < (z : Rat)) := by
          have : (z : Rat) ≤ (m : Rat) := by exact_mod_cast h1
          grind
        simp only [hz0, hzm, if_false]
        have hmin : INT64_MIN ≤ 0 := by decide
        exact C01.castInt_int z (by omega) (by omega)
  unfold conv2pos
  simp only [hclip]
  have hfar : farOutside (target.map F.ofInt) target size = false := by
    unfold farOutside
    have hd : distSq (target.map F.ofInt) target = some 0 := by
      clear hclip hin
      induction target with
      | nil => rfl
      | cons z zs ih =>
        simp only [List.map_cons, distSq, F.ofInt, rintF, rintQ_int, ih]
        simp
    rw [hd]
    simp only [decide_eq_false_iff_not]
    have := mul_self_nonneg ((size : Rat) / (100 : Rat) ^ (target.map F.ofInt).length)
    exact not_lt.mpr this
  simp [hfar]

/-- PSO, ES, Spiral, Pattern, Powell, Simplex, Direct: one check, else ONE fallback kernel - at most `1 + retries of the fallback`
    constraint evaluations; there is no loop around the pair any more -/
theorem guarded_one_check (feas : Pos → Bool) (p fb : Pos) (hfb : feas fb = true) :
    feas (C02.guarded feas p fb) = true := C02.guarded_feasible feas p fb hfb

/-- the pinned-commit PSO loop had a dead state: a deterministic candidate that is infeasible is recomputed for ever -/
theorem pso_legacy_dead_state_witness :
    ∀ n : Nat, C02.firstFeasible (fun p => p != [1]) (List.replicate n [1]) 0 = none := by
  intro n
  have : ∀ k0, C02.firstFeasible (fun p => p != [1]) (List.replicate n [1]) k0 = none := by
    induction n with
    | zero => intro k0; rfl
    | succ n ih => intro k0; simp only [List.replicate_succ, C02.firstFeasible]; simp [ih]
  exact this 0

end GFO.C08
