/-
  C04 — search_data is a faithful, ordered record of what was evaluated.
  C06 (first half) — memory answers revisits with the original result, at most one objective call per point,
  memory_dict maps exactly the evaluated positions to their results.

  Model: `scoreStep` / `evalAt` / `rowOf` inside `searchCall`. For every backend and every deterministic objective
  `od`: the rows a call appends are, in order, `rowOf (od values) parameters` of the positions the backend emitted -
  with memory off, and with memory on (fresh dictionary, or any dictionary satisfying the cache invariant).
  No hypothesis on the emitted positions is needed: whatever `position2value` succeeds on yields member values, and
  the memory key is derived from the values.
-/
import GFO.Proofs.Memory
namespace GFO.C04
open GFO
variable {σ : Type}

/-- the row the results manager must record for a position: its parameters and the objective's result for them -/
def rowAt (od : Value → Res) (sp : Space) (p : Pos) : Row :=
  match position2value sp.dims p with
  | .ok v => rowOf (od v) (value2para sp.names v)
  | .error _ => []

def scoreAt (od : Value → Res) (sp : Space) (p : Pos) : F :=
  match position2value sp.dims p with
  | .ok v => (od v).score
  | .error _ => .nan

/-- the cumulative statement carried along a run (call started with `n0` positions, `r0` rows, `s0` scores) -/
structure Faithful (od : Value → Res) (sp : Space) (c : Call) (n0 r0 s0 : Nat) (m0 : Dict Res) (d : DState σ) (cs : CState) : Prop where
  n : n0 ≤ d.posL.length
  r : r0 ≤ d.rows.length
  s : s0 ≤ d.scoreL.length
  ok :
    d.rows.drop r0 = (d.posL.drop n0).map (rowAt od sp) ∧
    d.scoreL.drop s0 = (d.posL.drop n0).map (scoreAt od sp) ∧
    (c.memory ≠ .off →
      MemOk od sp cs.mem ∧ cs.calls.Nodup ∧ cs.mem.keys = m0.keys ++ cs.calls ∧
      (∀ p ∈ d.posL.drop n0, ∃ k, keyOf sp (match position2value sp.dims p with | .ok v => v | .error _ => []) = .ok k ∧ k ∈ cs.mem.keys) ∧
      (∀ k ∈ cs.calls, ∃ p ∈ d.posL.drop n0, keyOf sp (match position2value sp.dims p with | .ok v => v | .error _ => []) = .ok k))

theorem drop_append_singleton {α : Type} (l : List α) (x : α) (n : Nat) (h : n ≤ l.length) :
    (l ++ [x]).drop n = l.drop n ++ [x] := by
  rw [List.drop_append_of_le_length h]

theorem faithful_step {od : Value → Res} {sp : Space} {obj : Obj} {c : Call} {n0 r0 s0 : Nat} {m0 : Dict Res}
    (hwf : sp.WF) (hdet : Det obj od)
    (i : Nat) (d d1 : DState σ) (cs cs1 : CState) (p : Pos) (v : Value) (e : Eval)
    (hP : Faithful od sp c n0 r0 s0 m0 d cs) (f : StepFacts sp obj c i d d1 cs cs1 p v e) :
    Faithful od sp c n0 r0 s0 m0 d1 cs1 ∧ True := by
  refine ⟨?_, trivial⟩
  have hpos : d1.posL.drop n0 = d.posL.drop n0 ++ [p] := by rw [f.posL]; exact drop_append_singleton _ _ _ hP.n
  have hrows : d1.rows.drop r0 = d.rows.drop r0 ++ [rowOf e.res (value2para sp.names v)] := by
    rw [f.rows]; exact drop_append_singleton _ _ _ hP.r
  have hsc : d1.scoreL.drop s0 = d.scoreL.drop s0 ++ [e.res.score] := by
    rw [f.scoreL]; exact drop_append_singleton _ _ _ hP.s
  have hn1 := hP.n
  have hr1 := hP.r
  have hs1 := hP.s
  refine { n := by rw [f.posL]; simp; omega, r := by rw [f.rows]; simp; omega, s := by rw [f.scoreL]; simp; omega, ok := ?_ }
  obtain ⟨hr0, hs0, hm0⟩ := hP.ok
  have hrowAt : ∀ (res : Res), res = od v → rowAt od sp p = rowOf res (value2para sp.names v) := by
    intro res hres; simp [rowAt, f.hv, hres]
  have hscoreAt : ∀ (res : Res), res = od v → scoreAt od sp p = res.score := by
    intro res hres; simp [scoreAt, f.hv, hres]
  by_cases hmem : c.memory = .off
  · obtain ⟨hres, _, _, _⟩ := evalAt_off hdet hmem f.he
    refine ⟨?_, ?_, fun h => absurd hmem h⟩
    · rw [hrows, hpos, hr0]; simp [hrowAt e.res hres]
    · rw [hsc, hpos, hs0]; simp [hscoreAt e.res hres]
  · obtain ⟨hok, hnd, hkeys, hcov, hcal⟩ := hm0 hmem
    obtain ⟨hres, hok1, k, hkey, hkin, hkback, hcase⟩ := evalAt_memory hwf hdet hmem hok f.hv f.he
    refine ⟨?_, ?_, fun _ => ?_⟩
    · rw [hrows, hpos, hr0]; simp [hrowAt e.res hres]
    · rw [hsc, hpos, hs0]; simp [hscoreAt e.res hres]
    · rw [f.mem, f.calls, hpos]
      have hvp : (match position2value sp.dims p with | .ok v => v | .error _ => []) = v := by simp [f.hv]
      rcases hcase with ⟨_, hnone, hmemset, hcalls⟩ | ⟨_, hsome, hmemsame, hcalls⟩
      · -- fresh call: the key was absent
        have hknot : k ∉ cs.mem.keys := (Dict.get?_none_iff_not_mem _ _).mp hnone
        have hkeys1 : e.mem.keys = cs.mem.keys ++ [k] := by rw [hmemset]; exact Dict.keys_set_of_none _ _ _ hnone
        refine ⟨hok1, ?_, ?_, ?_, ?_⟩
        · rw [hcalls]
          apply List.nodup_append.mpr
          refine ⟨hnd, by simp, ?_⟩
          intro a ha b hb
          simp at hb; subst hb
          intro heq; subst heq
          apply hknot; rw [hkeys]; simp [ha]
        · rw [hkeys1, hkeys, hcalls]; simp
        · intro q hq
          rcases List.mem_append.mp hq with hq | hq
          · obtain ⟨k', hk', hin⟩ := hcov q hq
            exact ⟨k', hk', by rw [hkeys1]; simp [hin]⟩
          · simp at hq; subst hq
            exact ⟨k, by rw [hvp]; exact hkey, by rw [hkeys1]; simp⟩
        · intro k' hk'
          rw [hcalls] at hk'
          rcases List.mem_append.mp hk' with hk' | hk'
          · obtain ⟨q, hq, hkq⟩ := hcal k' hk'
            exact ⟨q, by simp [hq], hkq⟩
          · simp at hk'; subst hk'
            exact ⟨p, by simp, by rw [hvp]; exact hkey⟩
      · -- memory hit
        have hkin' : k ∈ cs.mem.keys := by
          apply Classical.byContradiction
          intro hc
          have := (Dict.get?_none_iff_not_mem _ _).mpr hc
          rw [this] at hsome; cases hsome
        refine ⟨hok1, by rw [hcalls]; exact hnd, by rw [hmemsame, hcalls]; exact hkeys, ?_, ?_⟩
        · intro q hq
          rcases List.mem_append.mp hq with hq | hq
          · obtain ⟨k', hk', hin⟩ := hcov q hq
            exact ⟨k', hk', by rw [hmemsame]; exact hin⟩
          · simp at hq; subst hq
            exact ⟨k, by rw [hvp]; exact hkey, by rw [hmemsame]; exact hkin'⟩
        · intro k' hk'
          rw [hcalls] at hk'
          obtain ⟨q, hq, hkq⟩ := hcal k' hk'
          exact ⟨q, by simp [hq], hkq⟩

/-- the rows, positions and scores a call appended -/
def newRows (d d' : DState σ) : List Row := d'.rows.drop d.rows.length
def newPos (d d' : DState σ) : List Pos := d'.posL.drop d.posL.length
def newScores (d d' : DState σ) : List F := d'.scoreL.drop d.scoreL.length

/-- C04: for a deterministic objective every row a call appends is, in evaluation order, the parameter set of the
    emitted position together with the score and all metrics the objective returns for it - memory off, or memory on
    with a dictionary satisfying the cache invariant (a fresh one does); the memory answers revisits with the original
    result. C06: with memory on the objective is really called at most once per key (`calls.Nodup`), and
    `memory_dict` holds exactly the initial keys plus the keys of the evaluated positions, each mapped to `od`. -/
theorem rows_are_evaluations {b : Backend σ} {sp : Space} {obj : Obj} {od : Value → Res} {c : Call}
    {d d' : DState σ} {r : CallResult}
    (hwf : sp.WF) (hdet : Det obj od) (h : searchCall b sp obj c d = .ok (d', r)) (hn : 0 < c.nIter)
    (hm0 : ∀ m, initMemory sp c d.shared = .ok m → MemOk od sp m) :
    newRows d d' = (newPos d d').map (rowAt od sp) ∧
    newScores d d' = (newPos d d').map (scoreAt od sp) ∧
    (newPos d d').length = r.steps ∧
    (c.memory ≠ .off → ∃ m0 calls, initMemory sp c d.shared = .ok m0 ∧
      MemOk od sp r.memoryDict ∧ calls.Nodup ∧ r.memoryDict.keys = m0.keys ++ calls ∧
      (∀ p ∈ newPos d d', ∃ k, keyOf sp (match position2value sp.dims p with | .ok v => v | .error _ => []) = .ok k ∧ k ∈ r.memoryDict.keys) ∧
      (∀ k ∈ calls, ∃ p ∈ newPos d d', keyOf sp (match position2value sp.dims p with | .ok v => v | .error _ => []) = .ok k)) := by
  obtain ⟨cs0, hcs0⟩ : ∃ cs, initSearch sp c d = .ok cs := by
    obtain ⟨cs, _, _, _, hcs, _⟩ := searchCall_parts h
    exact ⟨cs, hcs⟩
  obtain ⟨_, _, _, _, _, _, _, _, hcalls0, _, hmem0⟩ := initSearch_ok hcs0
  have hstart : ∀ cs, initSearch sp c d = .ok cs →
      Faithful od sp c d.posL.length d.rows.length d.scoreL.length cs0.mem d cs := by
    intro cs hcs
    rw [hcs0] at hcs; cases hcs
    refine { n := Nat.le_refl _, r := Nat.le_refl _, s := Nat.le_refl _, ok := ?_ }
    refine ⟨by simp, by simp, fun _ => ⟨hm0 _ hmem0, by rw [hcalls0]; exact List.nodup_nil, by rw [hcalls0]; simp, ?_, ?_⟩⟩
    · intro p hp; simp at hp
    · intro k hk; rw [hcalls0] at hk; simp at hk
  obtain ⟨cs, d1, cs1, tr, hcs, hfin, T, hP, _⟩ :=
    searchCall_inv (Faithful od sp c d.posL.length d.rows.length d.scoreL.length cs0.mem) (fun _ => True)
      (fun i d d1 cs cs1 p v e hP f _ => faithful_step hwf hdet i d d1 cs cs1 p v e hP f) h hn hstart
  have hf := finishSearch_ok hfin
  have e1 : d'.rows = d1.rows := hf.1
  have e2 : d'.posL = d1.posL := hf.2.1
  have e3 : d'.scoreL = d1.scoreL := hf.2.2.1
  obtain ⟨hr, hs, hm⟩ := hP.ok
  refine ⟨by simp only [newRows, newPos, e1, e2]; exact hr, by simp only [newScores, newPos, e3, e2]; exact hs, ?_, ?_⟩
  · simp only [newPos, e2, T.posL]
    have := T.len
    simp; omega
  · intro hmem
    obtain ⟨hok, hnd, hkeys, hcov, hcal⟩ := hm hmem
    have hmd : r.memoryDict = cs1.mem := by rw [hf.2.2.2.2.2.2.2.2.2.2.2.2.2.2.2]; simp [hmem]
    refine ⟨cs0.mem, cs1.calls, hmem0, by rw [hmd]; exact hok, hnd, by rw [hmd]; exact hkeys, ?_, ?_⟩
    · intro p hp; simp only [newPos, e2] at hp; rw [hmd]; exact hcov p hp
    · intro k hk; obtain ⟨p, hp, hkp⟩ := hcal k hk; exact ⟨p, by simp only [newPos, e2]; exact hp, hkp⟩

/-! ### what a row contains -/

theorem rowGet_rowSet_self (r : Row) (k : String) (v : Cell) : rowGet? (rowSet r k v) k = some v := by
  induction r with
  | nil => simp [rowSet, rowGet?]
  | cons e es ih =>
    obtain ⟨k', v'⟩ := e
    simp only [rowSet]
    by_cases h : (k' == k) = true
    · simp [h, rowGet?]
    · simp only [h, Bool.false_eq_true, if_false]
      simp only [rowGet?, List.find?_cons, h] at ih ⊢
      exact ih

theorem rowGet_rowSet_other (r : Row) (k k2 : String) (v : Cell) (hne : k ≠ k2) :
    rowGet? (rowSet r k v) k2 = rowGet? r k2 := by
  induction r with
  | nil =>
    have : (k == k2) = false := by simp [hne]
    simp [rowSet, rowGet?, this]
  | cons e es ih =>
    obtain ⟨k', v'⟩ := e
    simp only [rowSet]
    by_cases h : (k' == k) = true
    · have hk : k' = k := by simpa using h
      have : (k' == k2) = false := by simp [hk, hne]
      simp [h, rowGet?, this]
    · simp only [h, Bool.false_eq_true, if_false]
      simp only [rowGet?, List.find?_cons] at ih ⊢
      by_cases h2 : (k' == k2) = true
      · simp [h2]
      · simp only [h2]; exact ih

theorem rowGet_foldl_params (para : Para) (base : Row) (k : String) (hk : ∀ e ∈ para, e.1 ≠ k) :
    rowGet? (para.foldl (fun acc e => rowSet acc e.1 (.num (.fin e.2))) base) k = rowGet? base k := by
  induction para generalizing base with
  | nil => rfl
  | cons e es ih =>
    simp only [List.foldl_cons]
    rw [ih _ (fun e' he' => hk e' (by simp [he']))]
    exact rowGet_rowSet_other _ _ _ _ (hk e (by simp))

/-- a row holds the score under "score" (unless a parameter is called "score") … -/
theorem row_score (res : Res) (para : Para) (h : ∀ e ∈ para, e.1 ≠ "score") :
    rowGet? (rowOf res para) "score" = some (.num res.score) := by
  unfold rowOf
  rw [rowGet_foldl_params para _ "score" h]
  unfold objFuncResults
  exact rowGet_rowSet_self _ _ _

/-- … and every parameter under its name (a parameter wins over a metric of the same name) -/
theorem row_param (res : Res) (para : Para) (hnd : (para.map (·.1)).Nodup) (k : String) (v : Rat) (hmem : (k, v) ∈ para) :
    rowGet? (rowOf res para) k = some (.num (.fin v)) := by
  unfold rowOf
  generalize objFuncResults res = base
  induction para generalizing base with
  | nil => simp at hmem
  | cons e es ih =>
    simp only [List.foldl_cons]
    simp only [List.map_cons, List.nodup_cons] at hnd
    rcases List.mem_cons.mp hmem with h | h
    · subst h
      rw [rowGet_foldl_params es _ k]
      · exact rowGet_rowSet_self _ _ _
      · intro e' he' heq
        apply hnd.1
        exact List.mem_map.mpr ⟨e', he', heq⟩
    · exact ih hnd.2 h _

/-- every key of the metrics dictionary is a column of the row -/
theorem row_has_metric_keys (res : Res) (para : Para) (k : String) (hk : k ∈ res.metrics.map (·.1)) :
    (rowGet? (rowOf res para) k).isSome = true := by
  -- once a key is in a row, rowSet never removes it
  have keep : ∀ (r : Row) (k2 : String) (c : Cell), (rowGet? r k).isSome = true → (rowGet? (rowSet r k2 c) k).isSome = true := by
    intro r k2 c h
    by_cases e : k2 = k
    · subst e; rw [rowGet_rowSet_self]; rfl
    · rw [rowGet_rowSet_other _ _ _ _ e]; exact h
  have keepFold : ∀ (ps : Para) (r : Row), (rowGet? r k).isSome = true →
      (rowGet? (ps.foldl (fun acc e => rowSet acc e.1 (.num (.fin e.2))) r) k).isSome = true := by
    intro ps
    induction ps with
    | nil => intro r h; exact h
    | cons e es ih => intro r h; simp only [List.foldl_cons]; exact ih _ (keep _ _ _ h)
  have keepFoldM : ∀ (ms : List (String × String)) (r : Row), (rowGet? r k).isSome = true →
      (rowGet? (ms.foldl (fun acc e => rowSet acc e.1 (.tok e.2)) r) k).isSome = true := by
    intro ms
    induction ms with
    | nil => intro r h; exact h
    | cons e es ih => intro r h; simp only [List.foldl_cons]; exact ih _ (keep _ _ _ h)
  unfold rowOf objFuncResults
  apply keepFold
  apply keep
  -- the metrics fold inserts k
  have : ∀ (ms : List (String × String)) (r : Row), k ∈ ms.map (·.1) →
      (rowGet? (ms.foldl (fun acc e => rowSet acc e.1 (.tok e.2)) r) k).isSome = true := by
    intro ms
    induction ms with
    | nil => intro r h; simp at h
    | cons e es ih =>
      intro r h
      simp only [List.foldl_cons]
      simp only [List.map_cons, List.mem_cons] at h
      rcases h with h | h
      · apply keepFoldM
        rw [h, rowGet_rowSet_self]; rfl
      · exact ih _ h
  exact this res.metrics [] hk

end GFO.C04
