/-
  C18 — step API and public facades are equivalent to search() / backend classes.

  (1) `stepApi` (init_search; search_step 0..N-1; finish_search) equals `searchCall` when no stopping criterion is set,
      for every backend, objective, space and prior state; with criteria, `search` is the step API truncated at the
      first step whose stop check fires (`searchLoop_run`).
  (2) the facade table regenerated from optimizer_search/*.py on every run forwards every constructor parameter
      unchanged (theorem `facades_forward` in GFO.Gen.FacadesCheck, closed by `decide`).
-/
import GFO.Proofs.Run
import GFO.Gen.FacadesCheck
namespace GFO.C18
open GFO
variable {σ : Type}

theorem searchLoop_eq_stepLoop {b : Backend σ} {sp : Space} {obj : Obj} {c : Call} :
    ∀ (fuel i : Nat) (d : DState σ) (cs : CState),
    cs.nInitSearch = min i cs.nInitsNorm → i + fuel ≤ c.nIter →
    (cs.stop.maxTime = none ∧ cs.stop.maxScore = none ∧ cs.stop.early = none) →
    searchLoop b sp obj c fuel i d cs = stepLoop b sp obj c fuel i d cs := by
  intro fuel
  induction fuel with
  | zero => intro i d cs _ _ _; rfl
  | succ fuel ih =>
    intro i d cs hinv hfuel hc
    simp only [searchLoop, stepLoop, bind, Except.bind, pure, Except.pure]
    cases hx : searchStep b sp obj c i d cs with
    | error e => rfl
    | ok x =>
      obtain ⟨d1, cs1⟩ := x
      have sf := searchStep_frame hinv (by omega) hx
      obtain ⟨p, v, e, sfa, _⟩ := sf.facts
      have hc1 : cs1.stop.maxTime = none ∧ cs1.stop.maxScore = none ∧ cs1.stop.early = none := by
        rw [sfa.stop]; exact hc
      have hinv1 : cs1.nInitSearch = min (i + 1) cs1.nInitsNorm := by rw [sf.nInitSearch, sfa.nInitsNorm]
      simp only [checkStop_noCriterion hc1, Bool.false_eq_true, if_false]
      exact ih (i + 1) d1 cs1 hinv1 (by omega) hc1

/-- driving the optimizer through the step API is the same as `search(n_iter = N)` -/
theorem stepApi_eq_search (b : Backend σ) (sp : Space) (obj : Obj) (c : Call) (d : DState σ) (hc : NoCriterion c) :
    stepApi b sp obj c d = searchCall b sp obj c d := by
  unfold stepApi searchCall
  simp only [bind, Except.bind]
  cases hcs : initSearch sp c d with
  | error e => rfl
  | ok cs =>
    obtain ⟨h0, _, _, hmt, hms, hes, _⟩ := initSearch_ok hcs
    have := searchLoop_eq_stepLoop (b := b) (sp := sp) (obj := obj) (c := c) c.nIter 0 d cs (by rw [h0]; omega) (by omega)
      (by rw [hmt, hms, hes]; exact hc)
    simp only [this]

/-- with stopping criteria `search()` performs a run of the same steps, cut after the first step whose check fires -/
theorem search_is_truncated_stepApi {b : Backend σ} {sp : Space} {obj : Obj} {c : Call} {d d' : DState σ} {r : CallResult}
    (h : searchCall b sp obj c d = .ok (d', r)) (hn : 0 < c.nIter) :
    ∃ cs d1 cs1 tr, CallShape sp obj c d d' r cs d1 cs1 tr :=
  searchCall_shape h hn

/-- every public optimizer class forwards each constructor parameter unchanged to its backend class (generated table) -/
theorem facades_forward : GFO.Gen.facades.all GFO.Gen.Forwards = true := GFO.Gen.facades_forward_checked

theorem facades_count : GFO.Gen.facades.length = 23 := GFO.Gen.facades_count_checked

end GFO.C18
