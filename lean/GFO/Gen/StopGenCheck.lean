/-
  Obligations tying the hand-written stop / progress-bar model (GFO.Model.Stop, GFO.Model.Results) to the functions that
  harness/translators.py:gen_stop regenerates from _stop_run.py and _progress_bar.py on every run: each generated
  definition EQUALS the model's, for all arguments (Python's truthiness of `max_time`, `is not None` of `max_score`,
  `>=`, the `or` of `_new2best` included).  `StopRun.update` and the third branch of `check` are pinned by the translator.
-/
import GFO.Gen.StopGen
namespace GFO.Gen.Stp
open GFO

theorem time_exceeded_eq (now start : Rat) (mt : Option F) : time_exceeded now start mt = timeExceeded now start mt := by
  unfold time_exceeded timeExceeded
  cases mt <;> simp

theorem score_exceeded_eq (sb : F) (ms : Option F) : score_exceeded sb ms = scoreExceeded sb ms := by
  unfold score_exceeded scoreExceeded
  cases ms <;> simp

theorem check_eq (flv : Flavour) (c : StopCfg) (now : Rat) (sb : F) (scores : List F) :
    check flv c now sb scores = stopCheck flv c now sb scores := by
  unfold check stopCheck
  simp only [time_exceeded_eq, score_exceeded_eq]
  rfl

theorem new2best_eq (p : PBar) (s : F) (pos : Pos) : _new2best p s pos = p.new2best s pos := by
  unfold _new2best PBar.new2best accepts
  rfl

theorem update0_eq (p : PBar) (s : F) (pos : Pos) (i : Nat) : update0 p s pos i = p.update0 s pos i := by
  unfold update0 PBar.update0
  exact new2best_eq p s pos

theorem update1_eq (p : PBar) (s : F) (pos : Pos) (i : Nat) : update1 p s pos i = p.update1 s pos i := by
  unfold update1 PBar.update1
  simp only [new2best_eq]

end GFO.Gen.Stp
