/-
  Obligations tying the hand-written stop / progress-bar model (GFO.Model.Stop, GFO.Model.Results) to the functions that
  harness/translators.py:gen_stop regenerates from _stop_run.py and _progress_bar.py on every run: each generated
  definition EQUALS the model's, for all arguments (Python's truthiness of `max_time`, `is not None` of `max_score`,
  `>=`, the `or` of `_new2best` included).  `StopRun.update` and the third branch of `check` are pinned by the translator.
-/
import GFO.Gen.StopGen
namespace GFO.Gen.Stp
open GFO

theorem time_exceeded_eq (now start : Rat) (mt : Option F) : time_exceeded now start mt = timeExceeded now start mt := by
  unfold time_exceeded timeExceeded
  cases mt <;> simp

theorem score_exceeded_eq (sb : F) (ms : Option F) : score_exceeded sb ms = scoreExceeded sb ms := by
  unfold score_exceeded scoreExceeded
  cases ms <;> simp

theorem check_eq (flv : Flavour) (c : StopCfg) (now : Rat) (sb : F) (scores : List F) :
    check flv c now sb scores = stopCheck flv c now sb scores := by
  unfold check stopCheck
  simp only [time_exceeded_eq, score_exceeded_eq]
  rfl

theorem new2best_eq (p : PBar) (s : F) (pos : Pos) : _new2best p s pos = p.new2best s pos := by
  unfold _new2best PBar.new2best accepts
  rfl

theorem update0_eq (p : PBar) (s : F) (pos : Pos) (i : Nat) : update0 p s pos i = p.update0 s pos i := by
  unfold update0 PBar.update0
  exact new2best_eq p s pos

theorem update1_eq (p : PBar) (s : F) (pos : Pos) (i : Nat) : update1 p s pos i = p.update1 s pos i := by
  unfold update1 PBar.update1
  simp only [new2best_eq]

/-- `no_change` as written (early returns, the two tolerance blocks, the zero-baseline guard) is the model's `noChange` -/
theorem no_change_eq (flv : Flavour) (scores : List F) (es : Early) : no_change flv scores es = noChange flv scores es := by
  unfold no_change noChange noChangeTail
  cases hn : es.n with
  | none => rfl
  | some n =>
    simp only [bind, Except.bind, pure, Except.pure, decide_eq_true_eq]
    by_cases hlen : scores.length ≤ n
    · simp [hlen]
    · simp only [hlen, if_false]
      cases hm : pyMax scores with
      | error e => rfl
      | ok ms =>
        simp only
        by_cases hd : scores.length - npArgmax scores > n
        · simp [hd]
        · simp only [hd, if_false]
          cases hf : pyMax (scores.take (scores.length - n)) with
          | error e => rfl
          | ok mf =>
            simp only
            cases hta : es.tolAbs with
            | some ta =>
              simp only
              by_cases hhit : F.lt (F.abs (F.sub mf ms)) ta = true
              · simp [hhit]
              · simp only [hhit, Bool.false_eq_true, if_false]
                cases htr : es.tolRel with
                | none => rfl
                | some tr =>
                  simp only
                  by_cases hb : F.beq (F.abs mf) F.zero = true
                  · simp [hb]
                  · simp only [hb, Bool.not_false, Bool.false_eq_true, if_true, if_false]
                    cases hq : F.div flv (F.sub ms mf) (F.abs mf) with
                    | error e => simp
                    | ok q => by_cases hl : F.lt (F.mul q (F.ofInt 100)) tr = true <;> simp [hl]
            | none =>
              simp only [Bool.false_eq_true, if_false]
              cases htr : es.tolRel with
              | none => rfl
              | some tr =>
                simp only
                by_cases hb : F.beq (F.abs mf) F.zero = true
                · simp [hb]
                · simp only [hb, Bool.not_false, Bool.false_eq_true, if_true, if_false]
                  cases hq : F.div flv (F.sub ms mf) (F.abs mf) with
                  | error e => simp
                  | ok q => by_cases hl : F.lt (F.mul q (F.ofInt 100)) tr = true <;> simp [hl]

end GFO.Gen.Stp
