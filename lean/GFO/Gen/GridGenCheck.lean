/-
  The grid machines regenerated from /repo's optimizers/grid/*.py (GFO.Gen.Grd, harness/pygrid.py) are EQUAL to the hand-written
  GFO.Model.Grid / GridBackend definitions that C16's theorems are about: both mixed-radix decoders, the pass test, the pointer
  update, one round of the diagonal `while True` (the model's `diagLoop` is its loop), `get_direction`, the orthogonal `iterate`.
-/
import GFO.Gen.GridGen
namespace GFO.Gen.Grd
open GFO

theorem diag_grid_move_eq : ∀ (dims : List Nat) (p : Nat), diag_grid_move dims p = decodeDiag dims p
  | [], _ => rfl
  | [_], _ => rfl
  | d :: d' :: ds, p => by
    unfold diag_grid_move decodeDiag
    rw [diag_grid_move_eq (d' :: ds)]

theorem current_pass_finished_eq (S s t : Nat) : current_pass_finished S s t = passFinished S s t := rfl

/-- `get_direction`: the model counts down exactly as the translated round does -/
theorem get_direction_unfold (S d : Nat) :
    getDirection S (d + 1) = (match get_direction_round S (d + 1) with
      | .inl r => r
      | .inr d' => getDirection S d') := by
  unfold get_direction_round
  rw [getDirection]
  by_cases h : Nat.gcd S (d + 1) = 1 <;> simp [h]

/-- the diagonal `iterate`: `diagLoop` is the loop of the translated round -/
theorem diag_loop_unfold (cfg : GridCfg) (d t fuel : Nat) (ft : Bool) (ptr : Nat) (tape : Tape) :
    diagLoop cfg d t (fuel + 1) ft ptr tape =
      (match diag_round cfg.geo cfg.dims cfg.stepSize d t ft ptr tape with
       | .error e => .error e
       | .ok (.inl r) => .ok r
       | .ok (.inr (ptr', tape')) => diagLoop cfg d t fuel false ptr' tape') := by
  rw [diagLoop]
  unfold diag_round
  have hn : diag_pointer_next (prodN cfg.dims) cfg.stepSize d t ft ptr =
      (if !ft then (ptr + d) % prodN cfg.dims
       else if passFinished (prodN cfg.dims) cfg.stepSize t then ptr % cfg.stepSize + 1
       else (ptr + cfg.stepSize * d) % prodN cfg.dims) := rfl
  simp only [diag_grid_move_eq, bind, Except.bind, pure, Except.pure]
  rw [hn]
  generalize (if !ft then (ptr + d) % prodN cfg.dims
       else if passFinished (prodN cfg.dims) cfg.stepSize t then ptr % cfg.stepSize + 1
       else (ptr + cfg.stepSize * d) % prodN cfg.dims) = ptr'
  cases hc : conv2posT cfg.geo (natVec (decodeDiag cfg.dims ptr')) tape with
  | error e => rfl
  | ok a =>
    obtain ⟨p, tape1⟩ := a
    simp only
    cases hf : askFeas p tape1 with
    | error e => rfl
    | ok b =>
      obtain ⟨ok, tape2⟩ := b
      cases ok <;> rfl

theorem orth_loop_eq : ∀ (dims : List Nat) (x : Nat), orth_loop dims x x = decodeOrth dims x
  | [], _ => rfl
  | d :: ds, x => by
    unfold orth_loop decodeOrth
    rw [orth_loop_eq ds]

theorem orth_grid_move_eq (dims : List Nat) (S s t : Nat) : orth_grid_move dims S s t = decodeOrth dims (orthRaw S s t) := by
  unfold orth_grid_move orthRaw
  exact orth_loop_eq dims _

/-- the orthogonal `iterate` is the model's `orthIterate` (position and tape) -/
theorem orth_iterate_eq (cfg : GridCfg) (s : GridSt) :
    (orthIterate cfg s).map (fun x => (x.1, x.2.tape)) = orth_iterate cfg.geo cfg.dims cfg.stepSize s.inner.nthTrial s.tape := by
  unfold orthIterate orth_iterate
  simp only [orth_grid_move_eq, bind, Except.bind, pure, Except.pure, Except.map]
  cases hc : conv2posT cfg.geo (natVec (decodeOrth cfg.dims (orthRaw (prodN cfg.dims) cfg.stepSize s.inner.nthTrial))) s.tape with
  | error e => rfl
  | ok a =>
    obtain ⟨p, tape1⟩ := a
    simp only
    cases hf : askFeas p tape1 with
    | error e => rfl
    | ok b =>
      obtain ⟨ok, tape2⟩ := b
      cases ok
      · simp only [Bool.false_eq_true, if_false]
        cases hm : moveRandomLoop tape2 with
        | error e => rfl
        | ok c => rfl
      · rfl

end GFO.Gen.Grd
