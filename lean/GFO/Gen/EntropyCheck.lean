/-
  Obligations over the entropy census that harness/translators.py regenerates from the source on every run.
-/
import GFO.Gen.Entropy
namespace GFO.Gen

/-- a site draws from (or seeds) one of the two GLOBAL generators - never a private generator, OS entropy, or a
    non-constant `random_state=` handed to a third-party estimator -/
def GlobalOnly (s : ESite) : Bool :=
  match s.kind with
  | .pyGlobal | .npGlobal | .pySeed | .npSeed | .seedCall | .sklearnFixed => true
  | .localGenerator | .osEntropy | .sklearnOther => false

/-- the generators are seeded in exactly one place: `set_random_seed` -/
def SeedsOnlyInSetRandomSeed (s : ESite) : Bool :=
  match s.kind with
  | .pySeed | .npSeed => s.fn == "set_random_seed"
  | _ => true

/-- no constructor draws before its `super().__init__(…)` (which reaches `CoreOptimizer.__init__` → `set_random_seed`) -/
def NoDrawBeforeSuper (s : ESite) : Bool := s.fn != "__init__" || s.afterSuper || s.kind == .seedCall

theorem entropy_sites_global_checked : entropySites.all GlobalOnly = true := by decide +kernel
theorem seeds_only_in_set_random_seed_checked : entropySites.all SeedsOnlyInSetRandomSeed = true := by decide +kernel
theorem no_draw_before_super_checked : entropySites.all NoDrawBeforeSuper = true := by decide +kernel

/-- inside `set_random_seed` the only draw (for `random_state is None`) precedes the two seed calls, which come last -/
theorem seed_fn_order_checked : seedFnOrder = [.npGlobal, .pySeed, .npSeed] := by decide +kernel

/-- `CoreOptimizer.__init__` calls `set_random_seed` before it builds the `Converter` and the `Initializer` (the first
    consumer of random draws) -/
theorem core_init_seeds_first_checked :
    coreInitCalls.idxOf "set_random_seed" < coreInitCalls.idxOf "Initializer" ∧
    coreInitCalls.idxOf "set_random_seed" < coreInitCalls.length ∧
    (coreInitCalls.take (coreInitCalls.idxOf "set_random_seed")).all (fun c => c == "super().__init__" || c == "super") = true := by
  decide +kernel

end GFO.Gen
