/-
  The definitions regenerated from /repo's core_optimizer/init_positions.py (GFO.Gen.Ini, harness/pyinit.py) are EQUAL to the
  hand-written Initializer model (GFO.Model.Init / Kernels) that C02, C10 and GFO.InitSpace are about.
  (`int(dim / (p_per_dim + 1))` is a float division of nonnegative integers truncated: the floor division, exact below 2^53.)
-/
import GFO.Gen.InitGen
import GFO.Model.Init
namespace GFO.Gen.Ini
open GFO

theorem n_inits_eq (c : InitCfg) : n_inits c = c.nInits := by
  unfold n_inits InitCfg.nInits; omega

theorem grid_points_eq (dim p : Nat) : grid_points dim p = initGridDim dim p := by
  unfold grid_points initGridDim
  simp only [Nat.add_sub_cancel]
  rw [List.range'_eq_map_range, List.map_map]
  apply List.map_congr_left
  intro n _
  simp only [Function.comp]
  rw [Nat.add_comm 1 n]

theorem init_grid_search_eq (feas : Pos → Bool) (sizes : List Nat) (n p : Nat) :
    init_grid_search feas sizes n p = initGrid feas sizes n p := by
  unfold init_grid_search initGrid
  simp only [List.map_map]
  have : ((fun dim => grid_points dim p) ∘ fun s => s - 1) = fun s => initGridDim (s - 1) p := by
    funext s; simp [Function.comp, grid_points_eq]
  rw [this]

theorem warm_pos_eq (sp : Space) (w : Para) : warm_pos sp w = warmPos sp w := rfl

theorem init_warm_start_eq (feas : Pos → Bool) (sp : Space) (ws : List Para) : init_warm_start feas sp ws = initWarm feas sp ws := by
  unfold init_warm_start initWarm
  have : warm_pos sp = warmPos sp := funext (warm_pos_eq sp)
  rw [this]
  cases List.mapM (warmPos sp) ws <;> rfl

theorem initRandom_zero (feas : Pos → Bool) (fuel : Nat) (d : Draws) : initRandom feas fuel 0 d = .ok ([], d) := rfl

/-- `set_pos` as written (parts in source order, flattening, `_fill_rest_random`) is the model's `setPos` -/
theorem set_pos_eq (feas : Pos → Bool) (sp : Space) (c : InitCfg) (pPerDim fuel : Nat) (d : Draws) :
    set_pos feas sp c pPerDim fuel d = setPos feas sp c pPerDim fuel d := by
  unfold set_pos setPos setPosParts
  rw [n_inits_eq]
  cases h1 : partRandom feas fuel c.random d with
  | error e => rfl
  | ok x1 =>
    obtain ⟨l1, d1⟩ := x1
    simp only
    cases h3 : partVertices feas c.vertices d1 with
    | error e => rfl
    | ok x3 =>
      obtain ⟨l3, d3⟩ := x3
      simp only
      cases h4 : partWarm feas sp c.warm with
      | error e => rfl
      | ok l4 =>
        simp only [Except.map]
        by_cases hpos : c.nInits - (l1 ++ partGrid feas sp.sizes pPerDim c.grid ++ l3 ++ l4).length > 0
        · rw [if_pos hpos]
          generalize initRandom feas fuel (c.nInits - (l1 ++ partGrid feas sp.sizes pPerDim c.grid ++ l3 ++ l4).length) d3 = res
          cases res with
          | error e => rfl
          | ok y => obtain ⟨a, b⟩ := y; rfl
        · rw [if_neg hpos]
          have hz : c.nInits - (l1 ++ partGrid feas sp.sizes pPerDim c.grid ++ l3 ++ l4).length = 0 := by omega
          rw [hz, initRandom_zero]
          simp

/-- the order of the parts is the order the model concatenates them in -/
theorem set_pos_keys_checked : set_pos_keys = ["random", "grid", "vertices", "warm_start"] := by decide

/-- `_init_vertices` tries `vertex_tries` vertices before it falls back to a random position -/
theorem init_vertices_tries (feas : Pos → Bool) (n : Nat) (acc : List Pos) (d : Draws) :
    initVertices feas (n + 1) acc d =
      (match pickVertex acc vertex_tries d with
       | .error e => .error e
       | .ok (v, d1) => initVertices feas n (acc ++ [v]) d1) := rfl

/-- `_get_random_vertex`: the coordinate chosen for a dimension is the model's (`randomVertex`, bit = `rnd == 1`) -/
theorem vertex_coord_eq (size : Nat) (b : Bool) : vertex_coord size (if b then 1 else 0) = (if b then size - 1 else 0) := by
  cases b <;> simp [vertex_coord]

theorem randomVertex_eq (sizes : List Nat) (bits : List Bool) :
    randomVertex sizes bits = (sizes.zip bits).map (fun sb => vertex_coord sb.1 (if sb.2 then 1 else 0)) := by
  unfold randomVertex
  apply List.map_congr_left
  intro sb _
  exact (vertex_coord_eq sb.1 sb.2).symm

end GFO.Gen.Ini
