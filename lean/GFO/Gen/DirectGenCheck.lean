/-
  The sub-space arithmetic and the selection of DirectAlgorithm, regenerated from /repo's global_opt/direct_algorithm.py
  (GFO.Gen.Dir), are the model's `midOf`, `biggestDim`, the unscored-first search of `dirPropose` and `selectSub`.
-/
import GFO.Gen.DirectGen
namespace GFO.Gen.Dir
open GFO

theorem center_of_dim_eq (d : List Int) : center_of_dim d = midOf d := rfl

theorem biggest_dim_eq : ∀ (dims : List (List Int)) (k ls ld : Nat) (tape : Tape), biggest_dim dims k ls ld tape = biggestDim dims k ls ld tape
  | [], _, _, _, _ => rfl
  | d :: ds, k, ls, ld, tape => by
    unfold biggest_dim biggestDim
    split
    · cases tape with
      | nil => rfl
      | cons x xs =>
        cases x <;> try rfl
        case int b =>
          simp only
          split
          · exact biggest_dim_eq ds _ _ _ _
          · exact biggest_dim_eq ds _ _ _ _
    · split
      · exact biggest_dim_eq ds _ _ _ _
      · exact biggest_dim_eq ds _ _ _ _

theorem select_scan_eq : ∀ (subs : List Sub) (k : Nat) (mx : F) (best : Option Nat), select_scan subs k mx best = selectSub.go subs k mx best
  | [], _, _, _ => rfl
  | s :: ss, k, mx, best => by
    unfold select_scan selectSub.go
    split
    · exact select_scan_eq ss _ _ _
    · exact select_scan_eq ss _ _ _

theorem select_subspace_eq (subs : List Sub) : select_subspace subs = selectSub subs := by
  unfold select_subspace selectSub
  rw [select_scan_eq]
  cases selectSub.go subs 0 F.ninf none <;> rfl

/-- `dirPropose` looks for an unscored sub-space first, exactly as `select_next_subspace` -/
theorem select_next_subspace_used (s : DirSt) (i : Nat) (h : select_next_subspace s.subs = some i) :
    dirPropose s = (match s.subs[i]? with
      | some sb => .ok (sb.center, { s with cur := some i })
      | none => .error .indexError) := by
  unfold select_next_subspace at h
  unfold dirPropose
  rw [h]
  simp only
  cases s.subs[i]? <;> rfl

end GFO.Gen.Dir
