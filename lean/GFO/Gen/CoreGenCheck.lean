/-
  The position kernels regenerated from /repo's core_optimizer/core_optimizer.py (GFO.Gen.Core, harness/pycore.py) against the
  hand-written kernels of GFO.Model.Local that every complete optimizer model is built from:

    conv2pos_eq               the translated `conv2pos` IS `conv2posT`
    move_random_unfold        `moveRandomLoop` succeeds with `r` exactly when the translated round returns `r`, or passes a tape on from
                              which `moveRandomLoop` succeeds with `r`  (the model is the loop of the translated `while True` body)
    move_climb_unfold         the same for `moveClimbLoop` and the round of `move_climb` (next centre = the rejected candidate)
    random_iteration_ok       `randomIteration` succeeds exactly like the translated decorator

  Equalities are stated on successful results: the two sides name a malformed tape differently (protocol errors are not behaviour
  of the code).
-/
import GFO.Gen.CoreGen
namespace GFO.Gen.Core
open GFO

theorem conv2pos_eq (g : Geo) (v : List F) (tape : Tape) : conv2pos g v tape = conv2posT g v tape := rfl

theorem moveRandomLoop_cons (p q : Pos) (ok : Bool) (rest : Tape) :
    moveRandomLoop (.rnd p :: .feas q ok :: rest) =
      (if q ≠ p then .error (protocol "constraint-evaluated-elsewhere") else if ok then .ok (p, rest) else moveRandomLoop rest) := by
  rw [moveRandomLoop]

theorem move_random_unfold (tape : Tape) (r : Pos × Tape) :
    moveRandomLoop tape = .ok r ↔
      (move_random_round tape = .ok (.inl r) ∨ ∃ t', move_random_round tape = .ok (.inr t') ∧ moveRandomLoop t' = .ok r) := by
  unfold move_random_round takeRnd
  cases tape with
  | nil => simp [moveRandomLoop]
  | cons x xs =>
    cases x with
    | rnd p =>
      simp only
      cases xs with
      | nil => simp [moveRandomLoop, askFeas]
      | cons y ys =>
        cases y with
        | feas q ok =>
          rw [moveRandomLoop_cons]
          unfold askFeas
          by_cases hq : q = p
          · subst hq
            cases ok <;> simp
          · simp [hq]
        | unif _ => simp [moveRandomLoop, askFeas]
        | climb _ _ => simp [moveRandomLoop, askFeas]
        | dist _ _ => simp [moveRandomLoop, askFeas]
        | rnd _ => simp [moveRandomLoop, askFeas]
        | accept _ _ => simp [moveRandomLoop, askFeas]
        | part _ _ => simp [moveRandomLoop, askFeas]
        | spiral _ => simp [moveRandomLoop, askFeas]
        | sorted _ => simp [moveRandomLoop, askFeas]
        | int _ => simp [moveRandomLoop, askFeas]
        | npunif _ => simp [moveRandomLoop, askFeas]
        | choice _ => simp [moveRandomLoop, askFeas]
        | mutant _ => simp [moveRandomLoop, askFeas]
        | parents _ => simp [moveRandomLoop, askFeas]
        | inits _ => simp [moveRandomLoop, askFeas]
        | vec _ => simp [moveRandomLoop, askFeas]
    | unif _ => simp [moveRandomLoop]
    | climb _ _ => simp [moveRandomLoop]
    | dist _ _ => simp [moveRandomLoop]
    | feas _ _ => simp [moveRandomLoop]
    | accept _ _ => simp [moveRandomLoop]
    | part _ _ => simp [moveRandomLoop]
    | spiral _ => simp [moveRandomLoop]
    | sorted _ => simp [moveRandomLoop]
    | int _ => simp [moveRandomLoop]
    | npunif _ => simp [moveRandomLoop]
    | choice _ => simp [moveRandomLoop]
    | mutant _ => simp [moveRandomLoop]
    | parents _ => simp [moveRandomLoop]
    | inits _ => simp [moveRandomLoop]
    | vec _ => simp [moveRandomLoop]

theorem move_climb_unfold (g : Geo) (fuel : Nat) (loc : Pos) (tape : Tape) (r : Pos × Tape) :
    moveClimbLoop g (fuel + 1) loc tape = .ok r ↔
      (move_climb_round g loc tape = .ok (.inl r) ∨
       ∃ loc' t', move_climb_round g loc tape = .ok (.inr (loc', t')) ∧ moveClimbLoop g fuel loc' t' = .ok r) := by
  conv => lhs; lhs; unfold moveClimbLoop
  unfold move_climb_round takeDist
  cases tape with
  | nil => simp
  | cons x xs =>
    cases x
    case dist loc' res =>
      by_cases hl : loc' = loc
      · subst hl
        simp only [ne_eq, not_true_eq_false, if_false, conv2pos_eq, bind, Except.bind]
        cases hc : conv2posT g res xs with
        | error e => simp
        | ok a =>
          obtain ⟨p, rest1⟩ := a
          simp only
          cases rest1 with
          | nil => simp [askFeas]
          | cons y ys =>
            cases y
            case feas q ok =>
              unfold askFeas
              by_cases hq : q = p
              · subst hq
                cases ok
                · simp only [ne_eq, not_true_eq_false, if_false, Bool.false_eq_true, Except.ok.injEq, reduceCtorEq, false_or,
                    Sum.inr.injEq, Prod.mk.injEq]
                  constructor
                  · intro h; exact ⟨q, ys, ⟨rfl, rfl⟩, h⟩
                  · rintro ⟨_, _, ⟨rfl, rfl⟩, h⟩; exact h
                · simp
              · simp [hq]
            all_goals simp [askFeas]
      · simp [hl]
    all_goals simp

theorem random_iteration_ok (cfg : LocalCfg) (tape : Tape) (k : Tape → Except Err (Pos × Tape)) (r : Pos × Tape) :
    randomIteration cfg tape k = .ok r ↔ random_iteration cfg.randRestP tape k = .ok r := by
  unfold randomIteration random_iteration takeUnif
  cases tape with
  | nil => simp
  | cons x xs =>
    cases x
    case unif u => simp
    all_goals simp

end GFO.Gen.Core
