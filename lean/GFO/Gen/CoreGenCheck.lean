/-
  The position kernels regenerated from /repo's core_optimizer/core_optimizer.py (GFO.Gen.Core, harness/pycore.py) against the
  hand-written kernels of GFO.Model.Local that every complete optimizer model is built from:

    conv2pos_eq               the translated `conv2pos` IS `conv2posT`
    move_random_unfold        `moveRandomLoop` succeeds with `r` exactly when the translated round returns `r`, or passes a tape on from
                              which `moveRandomLoop` succeeds with `r`  (the model is the loop of the translated `while True` body)
    move_climb_unfold         the same for `moveClimbLoop` and the round of `move_climb` (next centre = the rejected candidate)
    random_iteration_ok       `randomIteration` succeeds exactly like the translated decorator

  Equalities are stated on successful results: the two sides name a malformed tape differently (protocol errors are not behaviour
  of the code).
-/
import GFO.Gen.CoreGen
import GFO.Proofs.Local
namespace GFO.Gen.Core
open GFO

theorem conv2pos_eq (g : Geo) (v : List F) (tape : Tape) : conv2pos g v tape = conv2posT g v tape := rfl

theorem moveRandomLoop_cons (p q : Pos) (ok : Bool) (rest : Tape) :
    moveRandomLoop (.rnd p :: .feas q ok :: rest) =
      (if q ≠ p then .error (protocol "constraint-evaluated-elsewhere") else if ok then .ok (p, rest) else moveRandomLoop rest) := by
  rw [moveRandomLoop]

theorem move_random_unfold (tape : Tape) (r : Pos × Tape) :
    moveRandomLoop tape = .ok r ↔
      (move_random_round tape = .ok (.inl r) ∨ ∃ t', move_random_round tape = .ok (.inr t') ∧ moveRandomLoop t' = .ok r) := by
  unfold move_random_round takeRnd
  cases tape with
  | nil => simp [moveRandomLoop]
  | cons x xs =>
    cases x with
    | rnd p =>
      simp only
      cases xs with
      | nil => simp [moveRandomLoop, askFeas]
      | cons y ys =>
        cases y with
        | feas q ok =>
          rw [moveRandomLoop_cons]
          unfold askFeas
          by_cases hq : q = p
          · subst hq
            cases ok <;> simp
          · simp [hq]
        | unif _ => simp [moveRandomLoop, askFeas]
        | climb _ _ => simp [moveRandomLoop, askFeas]
        | dist _ _ => simp [moveRandomLoop, askFeas]
        | rnd _ => simp [moveRandomLoop, askFeas]
        | accept _ _ => simp [moveRandomLoop, askFeas]
        | part _ _ => simp [moveRandomLoop, askFeas]
        | spiral _ => simp [moveRandomLoop, askFeas]
        | sorted _ => simp [moveRandomLoop, askFeas]
        | int _ => simp [moveRandomLoop, askFeas]
        | npunif _ => simp [moveRandomLoop, askFeas]
        | choice _ => simp [moveRandomLoop, askFeas]
        | mutant _ => simp [moveRandomLoop, askFeas]
        | parents _ => simp [moveRandomLoop, askFeas]
        | inits _ => simp [moveRandomLoop, askFeas]
        | vec _ => simp [moveRandomLoop, askFeas]
    | unif _ => simp [moveRandomLoop]
    | climb _ _ => simp [moveRandomLoop]
    | dist _ _ => simp [moveRandomLoop]
    | feas _ _ => simp [moveRandomLoop]
    | accept _ _ => simp [moveRandomLoop]
    | part _ _ => simp [moveRandomLoop]
    | spiral _ => simp [moveRandomLoop]
    | sorted _ => simp [moveRandomLoop]
    | int _ => simp [moveRandomLoop]
    | npunif _ => simp [moveRandomLoop]
    | choice _ => simp [moveRandomLoop]
    | mutant _ => simp [moveRandomLoop]
    | parents _ => simp [moveRandomLoop]
    | inits _ => simp [moveRandomLoop]
    | vec _ => simp [moveRandomLoop]

theorem move_climb_unfold (g : Geo) (fuel : Nat) (loc : Pos) (tape : Tape) (r : Pos × Tape) :
    moveClimbLoop g (fuel + 1) loc tape = .ok r ↔
      (move_climb_round g loc tape = .ok (.inl r) ∨
       ∃ loc' t', move_climb_round g loc tape = .ok (.inr (loc', t')) ∧ moveClimbLoop g fuel loc' t' = .ok r) := by
  conv => lhs; lhs; unfold moveClimbLoop
  unfold move_climb_round takeDist
  cases tape with
  | nil => simp
  | cons x xs =>
    cases x
    case dist loc' res =>
      by_cases hl : loc' = loc
      · subst hl
        simp only [ne_eq, not_true_eq_false, if_false, conv2pos_eq, bind, Except.bind]
        cases hc : conv2posT g res xs with
        | error e => simp
        | ok a =>
          obtain ⟨p, rest1⟩ := a
          simp only
          cases rest1 with
          | nil => simp [askFeas]
          | cons y ys =>
            cases y
            case feas q ok =>
              unfold askFeas
              by_cases hq : q = p
              · subst hq
                cases ok
                · simp only [ne_eq, not_true_eq_false, if_false, Bool.false_eq_true, Except.ok.injEq, reduceCtorEq, false_or,
                    Sum.inr.injEq, Prod.mk.injEq]
                  constructor
                  · intro h; exact ⟨q, ys, ⟨rfl, rfl⟩, h⟩
                  · rintro ⟨_, _, ⟨rfl, rfl⟩, h⟩; exact h
                · simp
              · simp [hq]
            all_goals simp [askFeas]
      · simp [hl]
    all_goals simp

theorem random_iteration_ok (cfg : LocalCfg) (tape : Tape) (k : Tape → Except Err (Pos × Tape)) (r : Pos × Tape) :
    randomIteration cfg tape k = .ok r ↔ random_iteration cfg.randRestP tape k = .ok r := by
  unfold randomIteration random_iteration takeUnif
  cases tape with
  | nil => simp
  | cons x xs =>
    cases x
    case unif u => simp
    all_goals simp

/-! ### C08: every round of the translated loops makes progress on the tape, and returns exactly on a positive verdict -/

theorem takeRnd_len {tape rest : Tape} {p : Pos} (h : takeRnd tape = .ok (p, rest)) : rest.length + 1 = tape.length := by
  unfold takeRnd at h
  split at h
  · simp only [Except.ok.injEq, Prod.mk.injEq] at h; obtain ⟨_, rfl⟩ := h; simp
  · simp at h
  · simp at h

theorem askFeas_len {tape rest : Tape} {p : Pos} {ok : Bool} (h : askFeas p tape = .ok (ok, rest)) :
    rest.length + 1 = tape.length ∧ tape = Draw.feas p ok :: rest := by
  unfold askFeas at h
  split at h
  · rename_i q ok' rest'
    split at h
    · simp at h
    · rename_i hq
      simp only [Except.ok.injEq, Prod.mk.injEq] at h
      obtain ⟨rfl, rfl⟩ := h
      have : q = p := by simpa using hq
      subst this
      exact ⟨by simp, rfl⟩
  · simp at h
  · simp at h

/-- `move_random`: a round that does not return has consumed a generator draw and a NEGATIVE verdict; one that returns, a positive one -/
theorem move_random_round_progress {tape : Tape} :
    (∀ t', move_random_round tape = .ok (.inr t') → t'.length + 2 = tape.length ∧ ∃ p, tape = Draw.rnd p :: Draw.feas p false :: t') ∧
    (∀ p t', move_random_round tape = .ok (.inl (p, t')) → tape = Draw.rnd p :: Draw.feas p true :: t') := by
  unfold move_random_round
  cases h1 : takeRnd tape with
  | error e => simp
  | ok a =>
    obtain ⟨pos, t1⟩ := a
    have hr : tape = Draw.rnd pos :: t1 := by
      unfold takeRnd at h1
      split at h1
      · simp only [Except.ok.injEq, Prod.mk.injEq] at h1; obtain ⟨rfl, rfl⟩ := h1; rfl
      · simp at h1
      · simp at h1
    simp only
    cases h2 : askFeas pos t1 with
    | error e => simp
    | ok b =>
      obtain ⟨ok, t2⟩ := b
      obtain ⟨hl, ht⟩ := askFeas_len h2
      cases ok
      · simp only [Bool.false_eq_true, if_false, Except.ok.injEq, Sum.inr.injEq, reduceCtorEq, false_implies, implies_true, and_true]
        intro t' ht'
        subst ht'
        exact ⟨by rw [hr]; simp; omega, pos, by rw [hr, ht]⟩
      · simp only [if_true, Except.ok.injEq, reduceCtorEq, false_implies, implies_true, Sum.inl.injEq, Prod.mk.injEq, true_and]
        rintro p t' ⟨rfl, rfl⟩
        rw [hr, ht]

/-- `move_climb`: a round that does not return has consumed at least a generator draw and a verdict -/
theorem move_climb_round_progress {g : Geo} {pos loc' : Pos} {tape t' : Tape}
    (h : move_climb_round g pos tape = .ok (.inr (loc', t'))) : t'.length + 2 ≤ tape.length := by
  unfold move_climb_round at h
  cases h1 : takeDist pos tape with
  | error e => rw [h1] at h; simp at h
  | ok a =>
    obtain ⟨v, t1⟩ := a
    rw [h1] at h
    simp only at h
    have hl1 : t1.length + 1 = tape.length := by
      unfold takeDist at h1
      split at h1
      · split at h1
        · simp at h1
        · simp only [Except.ok.injEq, Prod.mk.injEq] at h1; obtain ⟨_, rfl⟩ := h1; simp
      · simp at h1
      · simp at h1
    cases h2 : conv2pos g v t1 with
    | error e => rw [h2] at h; simp at h
    | ok b =>
      obtain ⟨p, t2⟩ := b
      rw [h2] at h
      simp only at h
      have hl2 : t2.length ≤ t1.length := by
        rw [conv2pos_eq] at h2
        unfold conv2posT at h2
        simp only at h2
        split at h2
        · exact (moveRandomLoop_spec h2).1.length_le
        · simp only [Except.ok.injEq, Prod.mk.injEq] at h2; obtain ⟨_, rfl⟩ := h2; exact Nat.le_refl _
      cases h3 : askFeas p t2 with
      | error e => rw [h3] at h; simp at h
      | ok c =>
        obtain ⟨ok, t3⟩ := c
        rw [h3] at h
        obtain ⟨hl3, _⟩ := askFeas_len h3
        cases ok
        · simp only [Bool.false_eq_true, if_false, Except.ok.injEq, Sum.inr.injEq, Prod.mk.injEq] at h
          obtain ⟨_, rfl⟩ := h
          omega
        · simp at h

end GFO.Gen.Core
