/-
  Obligations tying the hand-written driver model (GFO.Model.Driver) to the step methods that
  harness/translators.py:gen_driver regenerates from search.py on every run: `_initialization`, `_iteration` and
  `search_step` as translated EQUAL the model's `initialization`, `iteration`, `searchStep`, for every backend, space,
  objective, call and state.  (`_score` = eval-time wrapper around `self.score(pos)`, the loop of `search` and the two
  `TimesTracker` decorators are pinned by the translator itself.)
-/
import GFO.Gen.DriverGen
namespace GFO.Gen.Drv
open GFO
variable {σ : Type}

theorem initialization_eq (b : Backend σ) (sp : Space) (obj : Obj) (c : Call) (i : Nat) (d : DState σ) (cs : CState) :
    _initialization b sp obj c i d cs = initialization b sp obj c i d cs := by
  unfold _initialization initialization
  rfl

theorem iteration_eq (b : Backend σ) (sp : Space) (obj : Obj) (c : Call) (i : Nat) (d : DState σ) (cs : CState) :
    _iteration b sp obj c i d cs = iteration b sp obj c i d cs := by
  unfold _iteration iteration
  rfl

theorem search_step_eq (b : Backend σ) (sp : Space) (obj : Obj) (c : Call) (i : Nat) (d : DState σ) (cs : CState) :
    search_step b sp obj c i d cs = searchStep b sp obj c i d cs := by
  unfold search_step searchStep stepTail
  simp only [initialization_eq, iteration_eq]

/-- the number of start-up steps of a call: Python's possibly negative int and the model's natural number select the same steps -/
theorem n_inits_norm_eq (sp : Space) (c : Call) (d : DState σ) (cs : CState) (h : initSearch sp c d = .ok cs) (i : Nat) :
    ((i : Int) < n_inits_norm c d) ↔ i < cs.nInitsNorm := by
  have : cs.nInitsNorm = min (d.nInits - d.nInitTotal) c.nIter := by
    unfold initSearch at h
    simp only [bind, Except.bind, pure, Except.pure] at h
    split at h
    · simp at h
    · simp only [Except.ok.injEq] at h; subst h; rfl
  rw [this]
  unfold n_inits_norm
  omega

/-- the stop object of a call: `max_time`, `max_score`, `early_stopping` and the start time each in the field of its own name -/
theorem stop_object_eq (sp : Space) (c : Call) (d : DState σ) (cs : CState) (h : initSearch sp c d = .ok cs) :
    cs.stop = stop_object c d := by
  unfold initSearch at h
  simp only [bind, Except.bind, pure, Except.pure] at h
  cases hm : initMemory sp c d.shared with
  | error e => rw [hm] at h; simp at h
  | ok m =>
    rw [hm] at h
    simp only [Except.ok.injEq] at h
    subst h
    rfl

end GFO.Gen.Drv
