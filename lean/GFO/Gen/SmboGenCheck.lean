/-
  The definitions regenerated from /repo's smb_opt/smbo.py (GFO.Gen.Smb, harness/pysmbo.py) are EQUAL to the hand-written
  model the C17 theorems are about: the sample decorators, `_remove_position`, the decorated `evaluate` / `evaluate_init` /
  `iterate` / `init_pos` of the complete backend (GFO.Model.SmboBackend) and the selection index (GFO.Model.Smbo.selectIdx).
  A change of one of these methods makes the corresponding theorem fail or leaves the translator's subset.
-/
import GFO.Gen.SmboGen
import GFO.Gen.TrackerGenCheck
import GFO.Model.SmboBackend
namespace GFO.Gen.Smb
open GFO GFO.Gen.Tr

theorem track_X_sample_eq (sm : SmboState) (p : Pos) : track_X_sample sm p = sm.trackX p := rfl

theorem track_y_sample_eq (sm : SmboState) (score : F) : track_y_sample sm score = sm.trackY score := by
  unfold track_y_sample SmboState.trackY
  cases score <;> rfl

theorem remove_position_eq (sm : SmboState) (p : Pos) : remove_position sm p = sm.removePos p := rfl

/-- the decorated `evaluate` is the model's `smboEvaluate` -/
theorem evaluate_eq (cfg : SmboCfg) (s : SmboSt) (score : F) :
    SMBO_evaluate cfg.replacement s.tr s.sm score = ((smboEvaluate cfg s score).tr, (smboEvaluate cfg s score).sm) := by
  unfold SMBO_evaluate smboEvaluate smboEvalBody
  simp only [set_score_new_eq, evaluate_new2current_eq, evaluate_current2best_eq, track_y_sample_eq, remove_position_eq]
  cases cfg.replacement <;> simp
  generalize (((s.tr.setScoreNew score).evaluateNew2current score).evaluateCurrent2best).posNew = o
  cases o <;> rfl

/-- the decorated `evaluate_init` is the model's `smboEvalInit` (it never looks at `replacement`) -/
theorem evaluate_init_eq (repl : Bool) (s : SmboSt) (score : F) :
    SMBO_evaluate_init repl s.tr s.sm score = ((smboEvalInit s score).tr, (smboEvalInit s score).sm) := by
  unfold SMBO_evaluate_init smboEvalInit smboEvalBody
  simp only [set_score_new_eq, evaluate_new2current_eq, evaluate_current2best_eq, track_y_sample_eq]

/-- what `iterate` does with the proposed position is what the model's `smboIterate` does -/
theorem iterate_eq (cfg : SmboCfg) (s s' : SmboSt) (p : Pos) (h : smboIterate cfg s = .ok (p, s')) :
    SMBO_iterate s.tr s.sm p = (s'.tr, s'.sm) := by
  unfold smboIterate at h
  cases hp : smboPropose cfg s with
  | error e => rw [hp] at h; simp at h
  | ok a =>
    rw [hp] at h
    simp only [Except.ok.injEq, Prod.mk.injEq] at h
    obtain ⟨rfl, rfl⟩ := h
    rfl

theorem init_pos_eq (s s' : SmboSt) (p : Pos) (h : smboInitPos s = .ok (p, s')) :
    SMBO_init_pos s.tr s.sm p = (s'.tr, s'.sm) := by
  unfold smboInitPos at h
  split at h
  · simp only [Except.ok.injEq, Prod.mk.injEq] at h
    obtain ⟨rfl, rfl⟩ := h
    rfl
  · simp at h

theorem mapM_head {α β : Type} (f : α → Option β) : ∀ (l : List α) (r : List β), l.mapM f = some r →
    r[0]? = (l[0]?).bind f
  | [], r, h => by simp at h; subst h; rfl
  | x :: xs, r, h => by
    simp only [List.mapM_cons, bind, Option.bind] at h
    cases hx : f x with
    | none => rw [hx] at h; simp at h
    | some b =>
      rw [hx] at h
      cases hxs : xs.mapM f with
      | none => rw [hxs] at h; simp at h
      | some bs =>
        rw [hxs] at h
        simp only [pure, Option.some.injEq] at h
        subst h
        simp [hx]

/-- the selection: the row the code returns is the candidate at the model's `selectIdx` of the ascending permutation - i.e. at
    the index C17.select_is_argmax proves to be an arg-max -/
theorem propose_pick_eq (pc : List Pos) (asc : List Nat) (p : Pos) (h : propose_pick pc asc = some p) :
    ∃ i, selectIdx asc = some i ∧ pc[i]? = some p := by
  unfold propose_pick at h
  simp only at h
  cases hm : asc.reverse.mapM (fun i => pc[i]?) with
  | none => rw [hm] at h; simp at h
  | some r =>
    rw [hm] at h
    simp only at h
    have := mapM_head _ _ _ hm
    rw [h] at this
    cases hh : asc.reverse[0]? with
    | none => rw [hh] at this; simp at this
    | some i =>
      rw [hh] at this
      refine ⟨i, ?_, by simpa using this.symm⟩
      unfold selectIdx
      rw [← List.head?_reverse]
      simpa [List.head?_eq_getElem?] using hh

/-- `_training` of the three surrogate classes makes exactly the draws the model's `trainTape` makes: none for Bayes and TPE,
    and - after its fix - Forest (whose `if len(Y_sample) == 0` now raises the ValueError that `_propose_location` turns into a random iteration; before, it drew a `move_random` and went on to predict with an unfitted regressor: the model's flag `trainsOnEmpty`) -/
theorem bayes_training_eq (cfg : SmboCfg) (s : SmboSt) (h : cfg.trainsOnEmpty = false) :
    trainTape cfg s = BayesianOptimizer_training_draws (decide (s.sm.Y = [])) s.tape := by
  unfold trainTape BayesianOptimizer_training_draws; simp [h]

theorem tpe_training_eq (cfg : SmboCfg) (s : SmboSt) (h : cfg.trainsOnEmpty = false) :
    trainTape cfg s = TreeStructuredParzenEstimators_training_draws (decide (s.sm.Y = [])) s.tape := by
  unfold trainTape TreeStructuredParzenEstimators_training_draws; simp [h]

theorem forest_training_eq (cfg : SmboCfg) (s : SmboSt) (h : cfg.trainsOnEmpty = false) :
    trainTape cfg s = ForestOptimizer_training_draws (decide (s.sm.Y = [])) s.tape := by
  unfold trainTape ForestOptimizer_training_draws; simp [h]

/-- without a valid sample LipschitzOptimizer proposes a random position (after its fix) - as the model does -/
theorem lipschitz_empty_sample (cfg : SmboCfg) (s : SmboSt) (hl : cfg.lipschitz = true) (hx : s.sm.X = []) :
    lipschitz_empty_sample_fallback = true ∧ smboPropose cfg s = moveRandomLoop s.tape := by
  refine ⟨rfl, ?_⟩
  unfold smboPropose
  simp [hl, hx]

/-- LipschitzOptimizer's own `iterate` selects like `_propose_location` -/
theorem lipschitz_pick_eq (pc : List Pos) (asc : List Nat) : lipschitz_pick pc asc = propose_pick pc asc := rfl

end GFO.Gen.Smb
