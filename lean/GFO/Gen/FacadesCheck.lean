/-
  Obligations over the facade table that harness/translators.py regenerates from the source on every run.
-/
import GFO.Gen.Facades
namespace GFO.Gen

/-- the class is `class X(_X, Search)`, its constructor does nothing but `super().__init__(p=p, …)` with every
    parameter forwarded under its own name and nothing else, the backend constructor accepts each parameter with the
    same default, and the class adds no other method -/
def Forwards (c : Facade) : Bool :=
  c.name == "EnsembleOptimizer" ||      -- not one of the 22 working optimizers (its constructor raises TypeError)
  (c.bodyOnlySuper && !c.irregularSig && !c.backendIrregular
    && c.bases.length == 2 && c.bases.getD 1 "" == "Search"
    && c.superKw == c.params.map (fun p => (p.1, p.1))
    && c.params.all (fun p => c.backendParams.contains p)
    && c.otherMethods.isEmpty)

theorem facades_forward_checked : facades.all Forwards = true := by decide +kernel
theorem facades_count_checked : facades.length = 23 := by decide +kernel

end GFO.Gen
