/-
  PatternSearch's `iterate`, `finish_initialization` and `evaluate` regenerated from global_opt/pattern_search.py (GFO.Gen.Pat,
  harness/pypattern.py) are EQUAL to `patPropose` (the body under the `random_iteration` wrapper), `patFinishInit` and `patEvaluate`
  of GFO.Model.Pattern - the definitions the whole-run theorems of GFO.PatternRuns (C01, C02, C15, C19) are about.  Removing the
  regeneration guard of `iterate` (fix 903cf1d, C15) or regenerating during the initialisation phase changes the generated
  definitions and breaks the equalities.
-/
import GFO.Gen.PatternGen
namespace GFO.Gen.Pat
open GFO

/-- the `random_iteration` decorator around a body that also returns the remaining pattern list -/
def randomIteration3 (cfg : PatCfg) (s : PatSt) (k : Tape → Except Err (Pos × List Pos × Tape)) : Except Err (Pos × List Pos × Tape) :=
  match s.tape with
  | .unif x :: rest =>
    if cfg.randRestP > x then
      match moveRandomLoop rest with
      | .error e => .error e
      | .ok a => .ok (a.1, s.pattern, a.2)
    else k rest
  | [] => .error .needMore
  | _ => .error (protocol "random_iteration")

theorem pattern_iterate_eq (cfg : PatCfg) (s : PatSt) :
    patPropose cfg s = randomIteration3 cfg s (Pattern_iterate_body cfg s) := by
  unfold patPropose randomIteration3 Pattern_iterate_body
  rfl

theorem pattern_finish_eq (cfg : PatCfg) (s : PatSt) : Pattern_finish_initialization cfg s = patFinishInit cfg s := rfl

theorem pattern_evaluate_eq (cfg : PatCfg) (s : PatSt) (score : F) : Pattern_evaluate cfg s score = patEvaluate cfg s score := rfl

theorem pattern_backend_steps (cfg : PatCfg) :
    (patBackend cfg).finishInit = Pattern_finish_initialization cfg ∧ (patBackend cfg).evaluate = Pattern_evaluate cfg := ⟨rfl, rfl⟩

end GFO.Gen.Pat
