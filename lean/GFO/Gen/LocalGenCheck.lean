/-
  The `iterate` methods of the seven local optimizers regenerated from their source files (GFO.Gen.Loc, harness/pylocal.py) are
  EQUAL to the branches of `localPropose` (and RepulsingHillClimbing's `evaluate` to its branch of `localEvaluate`) - the
  definitions the whole-run theorems of GFO.LocalRuns are about.  StochasticHillClimbing and SimulatedAnnealing inherit
  HillClimbing's `iterate` (checked by the translator).
-/
import GFO.Gen.LocalGen
namespace GFO.Gen.Loc
open GFO

theorem hillClimbing_iterate_eq (cfg : LocalCfg) (s : Local) (h : cfg.kind = .hillClimbing) :
    HillClimbing_iterate cfg s = localPropose cfg s := by
  unfold HillClimbing_iterate localPropose; rw [h]

theorem stochastic_iterate_eq (cfg : LocalCfg) (s : Local) (h : cfg.kind = .stochastic) :
    HillClimbing_iterate cfg s = localPropose cfg s := by
  unfold HillClimbing_iterate localPropose; rw [h]

theorem repulsing_iterate_eq (cfg : LocalCfg) (s : Local) (f : Rat) (h : cfg.kind = .repulsing f) :
    Repulsing_iterate cfg s = localPropose cfg s := by
  unfold Repulsing_iterate localPropose; rw [h]

theorem randomRestart_iterate_eq (cfg : LocalCfg) (s : Local) (n : Nat) (h : cfg.kind = .restart n) :
    RandomRestart_iterate cfg s n = localPropose cfg s := by
  unfold RandomRestart_iterate localPropose; rw [h]

theorem randomSearch_iterate_eq (cfg : LocalCfg) (s : Local) (h : cfg.kind = .randomSearch) :
    RandomSearch_iterate cfg s = localPropose cfg s := by
  unfold RandomSearch_iterate localPropose; rw [h]

theorem randomAnnealing_iterate_eq (cfg : LocalCfg) (s : Local) (h : cfg.kind = .randomAnnealing) :
    RandomAnnealing_iterate cfg s = localPropose cfg s := by
  unfold RandomAnnealing_iterate localPropose; rw [h]

theorem repulsing_evaluate_eq (cfg : LocalCfg) (s : Local) (score : F) (f : Rat) (h : cfg.kind = .repulsing f) :
    localEvaluate cfg s score = .ok (Repulsing_evaluate cfg.nNeighbours f s score) := by
  unfold localEvaluate Repulsing_evaluate; rw [h]

end GFO.Gen.Loc
