/-
  `fittest_parents` and the sample size of `_crossover`, regenerated from /repo's pop_opt/genetic_algorithm.py (GFO.Gen.Ga), are
  the model's `gaFittest` and the size `parentsFrom` demands - the definitions C09's GaSelect theorems are about.
-/
import GFO.Gen.GaGen
namespace GFO.Gen.Ga
open GFO

theorem fittest_parents_eq (perm : List Nat) (x : Rat) (tape : Tape) : fittest_parents perm x tape = gaFittest perm x tape := rfl

theorem sample_size_checked (n : Nat) (fit : List Nat) (idxs : List Nat) (rest : Tape)
    (h : parentsFrom n fit (.parents idxs :: rest) = true) : idxs.length = n_selected n fit := by
  simp only [parentsFrom, Bool.and_eq_true, beq_iff_eq] at h
  exact h.1.1

end GFO.Gen.Ga
