/-
  `set_random_seed` regenerated from /repo's core_optimizer/utils.py (GFO.Gen.Rn) is EQUAL to `setRandomSeed` of GFO.Model.Rng,
  the definition C07's theorems are about.
-/
import GFO.Gen.RngGen
namespace GFO.Gen.Rn
open GFO

theorem set_random_seed_eq (g : Gens) (nth rs : Option Int) (w : World) : set_random_seed g nth rs w = setRandomSeed g nth rs w := by
  unfold set_random_seed setRandomSeed
  cases rs <;> rfl

end GFO.Gen.Rn
