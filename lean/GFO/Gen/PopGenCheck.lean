/-
  `split` and the orientation of `sort_pop_best_score`, regenerated from /repo's pop_opt/base_population_optimizer.py
  (GFO.Gen.Pop), against the model: `split` IS `splitDeal` (C10), and the permutation the code builds from any ascending argsort
  passes the descending check of the complete population models (C09).
-/
import GFO.Gen.PopGen
import GFO.Model.Init
import GFO.Props.SortPop
namespace GFO.Gen.Pop
open GFO

theorem split_eq {α : Type} (l : List α) (pop : Nat) : split l pop = splitDeal l pop := by
  unfold split splitDeal
  simp only
  apply List.map_congr_left
  intro i _
  congr 1
  funext j
  by_cases h : i + j * pop < l.length
  · simp [h]
  · simp only [h, if_false]
    exact (List.getElem?_eq_none (by omega)).symm

/-- the permutation `sort_pop_best_score` builds is accepted by the model's check, for whatever ascending arrangement numpy returns -/
theorem pop_sorted_checked (scores : List F) (asc : List Nat) (hs : sortsAscending scores asc = true)
    (hn : ∀ x ∈ scores, x.isNan = false) : sortedDesc scores (pop_sorted_of_argsort asc) = true :=
  SortPop.C09_sort_pop_is_descending scores asc hs hn

end GFO.Gen.Pop
