/-
  Obligations tying the hand-written tracker model (GFO.Model.Tracker) to the definitions that
  harness/translators.py:gen_tracker regenerates from search_tracker.py and the evaluate methods on every run:
  each generated definition EQUALS the model's, for all arguments.  A change of the source that changes what one of
  these methods does makes the corresponding theorem fail (or leaves the translator's subset): a broken obligation.
-/
import GFO.Gen.TrackerGen
namespace GFO.Gen.Tr
open GFO GFO.Tracker

theorem isFinite_eq (s : F) : s.isFinite = ((!F.isInf s) && (!F.isNan s)) := by cases s <;> rfl

theorem set_pos_new_eq (t : Tracker) (p : Option Pos) : set_pos_new t p = { t with posNew := p } := rfl
theorem set_pos_current_eq (t : Tracker) (p : Option Pos) : set_pos_current t p = { t with posCurrent := p } := rfl
theorem set_pos_best_eq (t : Tracker) (p : Option Pos) : set_pos_best t p = { t with posBest := p } := rfl
theorem set_score_current_eq (t : Tracker) (s : F) : set_score_current t s = { t with scoreCurrent := s } := rfl
theorem set_score_best_eq (t : Tracker) (s : F) : set_score_best t s = { t with scoreBest := s } := rfl

/-- the `score_new` setter is the model's `setScoreNew` -/
theorem set_score_new_eq (t : Tracker) (s : F) : set_score_new t s = t.setScoreNew s := by
  unfold set_score_new setScoreNew
  simp only [isFinite_eq]

theorem eval2current_eq (t : Tracker) (p : Option Pos) (s : F) : _eval2current t p s = t.eval2current p s := by
  unfold _eval2current eval2current; split <;> rfl
theorem eval2best_eq (t : Tracker) (p : Option Pos) (s : F) : _eval2best t p s = t.eval2best p s := by
  unfold _eval2best eval2best; split <;> rfl
theorem evaluate_new2current_eq (t : Tracker) (s : F) : _evaluate_new2current t s = t.evaluateNew2current s := by
  unfold _evaluate_new2current evaluateNew2current; split <;> rfl
theorem evaluate_current2best_eq (t : Tracker) : _evaluate_current2best t = t.evaluateCurrent2best := by
  unfold _evaluate_current2best evaluateCurrent2best; split <;> rfl
theorem current2best_eq (t : Tracker) : _current2best t = t.current2best := rfl
theorem new2current_eq (t : Tracker) : _new2current t = t.new2current := rfl

/-- the `track_new_pos` decorator -/
theorem track_new_pos_eq (t : Tracker) (p : Pos) : track_new_pos t (some p) = t.trackNewPos p := rfl

/-- `CoreOptimizer.evaluate_init` under its decorator -/
theorem evaluate_init_eq (t : Tracker) (s : F) : track_new_score CoreOptimizer_evaluate_init t s = t.evaluateInit s := by
  unfold track_new_score CoreOptimizer_evaluate_init evaluateInit
  simp only [set_score_new_eq]
  generalize t.setScoreNew s = t1
  by_cases h1 : t1.posBest.isNone = true <;> by_cases h2 : t1.posCurrent.isNone = true <;>
    simp [h1, h2, set_pos_best, set_score_best, set_pos_current, set_score_current]

theorem base_evaluate_eq (t : Tracker) (s : F) : BaseOptimizer_evaluate t s = t.baseEvaluate s := by
  unfold BaseOptimizer_evaluate baseEvaluate; split <;> rfl

/-- RandomSearch and both grid searches: the plain evaluate under the decorator -/
theorem plain_evaluate_eq (t : Tracker) (s : F) :
    track_new_score RandomSearchOptimizer_evaluate t s = t.plainEvaluate s ∧
    track_new_score DiagonalGridSearchOptimizer_evaluate t s = t.plainEvaluate s ∧
    track_new_score OrthogonalGridSearchOptimizer_evaluate t s = t.plainEvaluate s := by
  refine ⟨?_, ?_, ?_⟩ <;>
  · unfold track_new_score plainEvaluate
    simp only [RandomSearchOptimizer_evaluate, DiagonalGridSearchOptimizer_evaluate, OrthogonalGridSearchOptimizer_evaluate,
      set_score_new_eq, base_evaluate_eq]

/-- `HillClimbingOptimizer.evaluate` under its decorator is the model's `hcEvaluate` -/
theorem hc_evaluate_eq (n : Nat) (t : Tracker) (s : F) : track_new_score (HillClimbingOptimizer_evaluate n) t s = hcEvaluate n t s := by
  unfold track_new_score HillClimbingOptimizer_evaluate hcEvaluate
  simp only [set_score_new_eq, base_evaluate_eq]
  generalize (t.setScoreNew s).baseEvaluate s = t1
  by_cases he : t1.scoresValid.length = 0
  · have he' : t1.scoresValid.isEmpty = true := by simpa [List.isEmpty_iff] using (List.length_eq_zero_iff.mp he)
    simp [he, he']
  · have he' : t1.scoresValid.isEmpty = false := by
      cases h : t1.scoresValid with
      | nil => simp [h] at he
      | cons _ _ => rfl
    simp only [he, decide_false, Bool.false_eq_true, if_false, he']
    by_cases hm : t1.nthTrial % n = 0
    · simp only [hm, decide_true, if_true]
      cases h1 : (lastN t1.scoresValid n)[maxListIdx (lastN t1.scoresValid n)]? with
      | none => simp
      | some sc =>
        cases h2 : (lastN t1.positionsValid n)[maxListIdx (lastN t1.scoresValid n)]? with
        | none => simp
        | some ps => simp [eval2current_eq, eval2best_eq]
    · simp [hm]

/-- the spiral member's evaluate -/
theorem spiral_evaluate_eq (t : Tracker) (s : F) : track_new_score Spiral_evaluate t s = t.spiralEvaluate s := by
  unfold track_new_score Spiral_evaluate spiralEvaluate
  simp only [set_score_new_eq, new2current_eq, evaluate_current2best_eq]

/-- `StochasticHillClimbingOptimizer.evaluate` (SimulatedAnnealing, ParallelTempering systems), for every acceptance decision -/
theorem stochastic_evaluate_eq (n : Nat) (accept : Bool) (t : Tracker) (s : F) :
    Stochastic_evaluate n accept t s = stochasticEvaluate n t s accept := by
  unfold Stochastic_evaluate stochasticEvaluate
  split
  · unfold track_new_score Stochastic_transition Stochastic_consider Stochastic_execute_transition
    cases accept <;> simp [set_score_new_eq, new2current_eq]
  · exact hc_evaluate_eq n t s

/-- every translated evaluate method except the undecorated base one runs under `track_new_score` -/
theorem decorators_checked :
    decorators = [("BaseOptimizer_evaluate", []), ("CoreOptimizer_evaluate_init", ["track_new_score"]),
      ("DiagonalGridSearchOptimizer_evaluate", ["track_new_score"]), ("HillClimbingOptimizer_evaluate", ["track_new_score"]),
      ("OrthogonalGridSearchOptimizer_evaluate", ["track_new_score"]), ("RandomSearchOptimizer_evaluate", ["track_new_score"]),
      ("Spiral_evaluate", ["track_new_score"]), ("Stochastic_consider", ["considered_transitions"]), ("Stochastic_evaluate", []),
      ("Stochastic_execute_transition", ["transitions"]), ("Stochastic_transition", ["track_new_score"])] := by decide +kernel

end GFO.Gen.Tr
