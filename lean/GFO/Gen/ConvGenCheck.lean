/-
  The conversions regenerated from /repo's core_optimizer/converter.py (GFO.Gen.Conv, harness/pyconv.py) are EQUAL to the
  hand-written GFO.Model.Converter / Space definitions that C20 (round trips), C11 (memory keys), C01 (what the objective is
  handed) and the driver model are about.
-/
import GFO.Gen.ConvGen
namespace GFO.Gen.Conv

theorem position2value_eq : ∀ (dims : List (List Rat)) (p : Pos), position2value dims p = GFO.position2value dims p
  | [], _ => rfl
  | _ :: _, [] => rfl
  | d :: ds, p :: ps => by
    unfold position2value GFO.position2value
    rw [position2value_eq ds ps]

theorem value2position_eq : ∀ (dims : List (List Rat)) (v : Value), value2position dims v = GFO.value2position dims v
  | [], _ => rfl
  | _ :: _, [] => rfl
  | d :: ds, v :: vs => by
    unfold value2position GFO.value2position
    rw [value2position_eq ds vs]

theorem value2para_eq (names : List String) (v : Value) : value2para names v = GFO.value2para names v := rfl

theorem para2value_eq : ∀ (names : List String) (para : Para), para2value names para = GFO.para2value names para
  | [], _ => rfl
  | n :: ns, para => by
    unfold para2value GFO.para2value
    rw [para2value_eq ns para]

theorem not_in_constraint_eq (dims : List (List Rat)) (f : Value → Bool) (p : Pos) :
    not_in_constraint dims f p = GFO.notInConstraint dims f p := by
  unfold not_in_constraint GFO.notInConstraint
  rw [position2value_eq]

theorem values2positions_eq (dims : List (List Rat)) (vs : List Value) : values2positions dims vs = GFO.values2positions dims vs := by
  unfold values2positions GFO.values2positions
  have : value2position dims = GFO.value2position dims := funext (value2position_eq dims)
  rw [this]

theorem positions2values_eq (dims : List (List Rat)) (ps : List Pos) : positions2values dims ps = GFO.positions2values dims ps := by
  unfold positions2values GFO.positions2values
  have : position2value dims = GFO.position2value dims := funext (position2value_eq dims)
  rw [this]

theorem dataframe2memory_dict_eq {α} (dims : List (List Rat)) (rows : List (Value × α)) :
    dataframe2memory_dict dims rows = GFO.dataframe2memoryDict dims rows := by
  unfold dataframe2memory_dict GFO.dataframe2memoryDict
  rw [values2positions_eq]

theorem memory_dict2dataframe_eq {α} (dims : List (List Rat)) (m : Dict α) :
    memory_dict2dataframe dims m = GFO.memoryDict2dataframe dims m := by
  unfold memory_dict2dataframe GFO.memoryDict2dataframe
  rw [positions2values_eq]

/-- the attributes of `Converter.__init__` are the space's -/
theorem dim_sizes_eq (sp : GFO.Space) : dim_sizes sp.dims = sp.sizes := rfl
theorem search_space_size_eq (sp : GFO.Space) : search_space_size sp.dims = sp.size := rfl
theorem max_positions_eq (sp : GFO.Space) : max_positions sp.dims = sp.maxPositions := by
  unfold max_positions dim_sizes GFO.Space.maxPositions
  simp [List.map_map, Function.comp]

end GFO.Gen.Conv
