/-
  PowellsMethod's `iterate`, `evaluate` and `finish_initialization` regenerated from powells_method.py (GFO.Gen.Pow,
  harness/pypowell.py) are EQUAL to `powPropose`, `powEvaluate` and the backend's `finishInit` of GFO.Model.Powell - the
  definitions the whole-run theorems and the known-finding witnesses of GFO.PowellRuns (C01, C02, C15, C19) are about.
-/
import GFO.Gen.PowellGen
namespace GFO.Gen.Pow
open GFO

theorem powell_iterate_body_eq (cfg : PowCfg) (s : PowSt) : Powell_iterate_body cfg s = powPropose cfg s := rfl
theorem powell_evaluate_eq (cfg : PowCfg) (s : PowSt) (score : F) : Powell_evaluate cfg s score = powEvaluate cfg s score := rfl
theorem powell_finish_eq (cfg : PowCfg) (s : PowSt) : Powell_finish_initialization s = (powBackend cfg).finishInit s := rfl

/-- `iterate` under `random_iteration` and `track_new_pos` runs the generated body -/
theorem powell_iterate_runs_body (cfg : PowCfg) (s : PowSt) (x : Rat) (rest : Tape) (h : s.tape = .unif x :: rest)
    (hx : ¬ cfg.randRestP > x) :
    powIterate cfg s = (match Powell_iterate_body cfg { s with tape := rest } with
      | .error e => .error e
      | .ok a => .ok (a.1, { a.2 with tr := a.2.tr.trackNewPos a.1 })) := by
  unfold powIterate; rw [h]; simp only [hx, if_false]; rfl

theorem powell_backend_steps (cfg : PowCfg) : (powBackend cfg).evaluate = Powell_evaluate cfg := rfl

end GFO.Gen.Pow
