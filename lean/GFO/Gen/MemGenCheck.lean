/-
  The wrappers regenerated from /repo's _memory.py, _results_manager.py and their wiring in search.py (GFO.Gen.Mem,
  harness/pymem.py) are EQUAL to the driver model's `initMemory`, `scoreStep` (= `evalAt` + `afterEval`) and the dictionary
  `finishSearch` reports - the definitions C04, C06 and C11 are about.
-/
import GFO.Gen.MemGen
import GFO.Model.Driver
namespace GFO.Gen.Mem
open GFO
variable {σ : Type}

/-- `Memory.__init__` is `initMemory` -/
theorem memory_init_eq (sp : Space) (c : Call) (shared : Dict Res) :
    initMemory sp c shared =
      memory_init sp (if c.memory = .shared then some shared else none)
        (c.warm.map (fun rows => rows.map (fun r => (r.1, ({ score := r.2, metrics := [] } : Res))))) := by
  unfold initMemory memory_init
  cases hw : c.warm with
  | none => by_cases hm : c.memory = .shared <;> simp [hm, pure, Except.pure]
  | some rows =>
    cases rows with
    | nil => by_cases hm : c.memory = .shared <;> simp [hm, pure, Except.pure]
    | cons r rs => by_cases hm : c.memory = .shared <;> simp [hm, bind, Except.bind, pure, Except.pure]

/-- one objective evaluation: the model's `scoreStep` produces the score, memory dictionary and rows the translated wrappers
    produce (the model's `obj` is handed the value vector, the code's objective the parameter dictionary of that vector) -/
theorem score_step_eq (sp : Space) (obj : Obj) (c : Call) (d : DState σ) (cs : CState) (pos : Pos) (value : Value)
    (hv : position2value sp.dims pos = .ok value) :
    (scoreStep sp obj c d cs pos).map (fun x => (x.1, x.2.2.mem, x.2.1.rows)) =
      search_score sp (decide (c.memory ≠ .off)) (fun _ => (obj d.nCalls d.rows.length value).1) cs.mem d.rows pos := by
  unfold scoreStep search_score evalAt memory_wrapper afterEval
  simp only [hv, bind, Except.bind, pure, Except.pure, Except.map]
  by_cases hm : c.memory = .off
  · simp [hm]
  · simp only [hm, if_false, ne_eq, not_false_eq_true, decide_true, if_true]
    cases h1 : para2value sp.names (value2para sp.names value) with
    | error e => rfl
    | ok v' =>
      simp only
      cases h2 : value2position sp.dims v' with
      | error e => rfl
      | ok k =>
        simp only
        cases h3 : Dict.get? cs.mem (k.map Int.ofNat) with
        | some r => rfl
        | none => rfl

theorem score_step_err (sp : Space) (obj : Obj) (c : Call) (d : DState σ) (cs : CState) (pos : Pos) (e : Err)
    (hv : position2value sp.dims pos = .error e) (mo : Bool) (f : Para → Res) :
    scoreStep sp obj c d cs pos = .error e ∧ search_score sp mo f cs.mem d.rows pos = .error e := by
  unfold scoreStep search_score
  simp [hv, bind, Except.bind]

/-- `finish_search` hands out the dictionary the model reports -/
theorem finish_memory_dict_eq (c : Call) (mem : Dict Res) :
    finish_memory_dict (decide (c.memory ≠ .off)) mem = (if c.memory = .off then [] else mem) := by
  unfold finish_memory_dict
  by_cases hm : c.memory = .off <;> simp [hm]

/-- `finish_search` reports the progress bar's best score, its position decoded, and that value as a parameter dictionary -/
theorem finish_best_eq (sp : Space) (c : Call) (d d' : DState σ) (cs : CState) (steps : Nat) (r : CallResult)
    (h : finishSearch sp c d cs steps = .ok (d', r)) :
    finish_best sp cs.pbar.scoreBest cs.pbar.posBest = .ok (r.bestScore, r.bestValue, r.bestPara) := by
  unfold finishSearch at h
  unfold finish_best
  simp only [bind, Except.bind, pure, Except.pure] at h ⊢
  cases hp : cs.pbar.posBest with
  | none =>
    rw [hp] at h
    simp only [Except.ok.injEq, Prod.mk.injEq] at h
    obtain ⟨_, rfl⟩ := h
    rfl
  | some p =>
    rw [hp] at h
    simp only at h ⊢
    cases hv : position2value sp.dims p with
    | error e => rw [hv] at h; simp at h
    | ok v =>
      rw [hv] at h
      simp only [Except.ok.injEq, Prod.mk.injEq] at h
      obtain ⟨_, rfl⟩ := h
      rfl

end GFO.Gen.Mem
