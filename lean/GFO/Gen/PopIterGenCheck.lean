/-
  The round-robin steps of the three population optimizers regenerated from their source files (GFO.Gen.PopIt,
  harness/pypop.py) are EQUAL to `ptIterate`, `psoIterate`, `spiralIterate` and `ptInitPos`, `ptEvaluate`, `psoEvaluate`, `spiralEvaluate` of GFO.Model.Population - the
  definitions the whole-run theorems of GFO.PopRuns (C01, C02, C19 for PT / PSO / Spiral) are about.  A change of the member
  selection, of the decorator stack of a member move, of the outer constraint test, of the fallback or of what the member
  records afterwards (e.g. dropping `self.p_current.pos_new = pos_new`, the C19 half of fix d993248) changes the generated
  definition and breaks the equality.
-/
import GFO.Gen.PopIterGen
import GFO.Gen.CoreGenCheck
import GFO.Proofs.Local
namespace GFO.Gen.PopIt
open GFO

theorem pt_iterate_eq (cfg : PTCfg) (s : PopSt) : PT_iterate cfg s = ptIterate cfg s := rfl
theorem pso_iterate_eq (cfg : LocalCfg) (s : PopSt) : PSO_iterate cfg s = psoIterate cfg s := rfl
theorem spiral_iterate_eq (cfg : LocalCfg) (s : PopSt) : Spiral_iterate cfg s = spiralIterate cfg s := rfl
theorem pt_init_pos_eq (cfg : PTCfg) (s : PopSt) : PT_init_pos cfg s = ptInitPos s := rfl
theorem pso_init_pos_eq (cfg : LocalCfg) (s : PopSt) : PSO_init_pos cfg s = ptInitPos s := rfl
theorem spiral_init_pos_eq (cfg : LocalCfg) (s : PopSt) : Spiral_init_pos cfg s = ptInitPos s := rfl

theorem pt_evaluate_eq (cfg : PTCfg) (s : PopSt) (score : F) : PT_evaluate cfg s score = ptEvaluate cfg s score := by
  unfold PT_evaluate ptEvaluate ptSwapTape; rfl
theorem pso_evaluate_eq (cfg : LocalCfg) (s : PopSt) (score : F) : PSO_evaluate cfg s score = psoEvaluate cfg s score := rfl
theorem spiral_evaluate_eq (cfg : LocalCfg) (s : PopSt) (score : F) : Spiral_evaluate cfg s score = spiralEvaluate s score := rfl

/-! EvolutionStrategyOptimizer -/
theorem es_cross_eq (cfg : ESCfg) (s : PopSt) (perm : List Nat) (k : Nat) (tape : Tape) :
    ES_cross cfg s perm k tape = esCross cfg s perm k tape := by
  unfold ES_cross esCross secondParentOK emitVia; rfl
theorem es_iterate_eq (cfg : ESCfg) (s : PopSt) : ES_iterate (ES_cross cfg s) cfg s = esIterate cfg s := by
  have h : ES_cross cfg s = esCross cfg s := by funext p k t; exact es_cross_eq cfg s p k t
  rw [h]; rfl
theorem es_init_pos_eq (cfg : ESCfg) (s : PopSt) : ES_init_pos cfg s = ptInitPos s := rfl
theorem es_evaluate_eq (cfg : ESCfg) (s : PopSt) (score : F) : ES_evaluate cfg s score = psoEvaluate cfg.member s score := rfl
theorem es_backend_steps (cfg : ESCfg) :
    (esBackend cfg).iterate = (fun s => ES_iterate (ES_cross cfg s) cfg s) ∧ (esBackend cfg).initPos = ES_init_pos cfg ∧
      (esBackend cfg).evaluate = ES_evaluate cfg :=
  ⟨by funext s; exact (es_iterate_eq cfg s).symm, rfl, rfl⟩

/-! DifferentialEvolutionOptimizer -/
theorem de_constraint_loop_unfold (g : Geo) (e : Rat) (fuel : Nat) (p : Pos) (tape : Tape) :
    constraintLoop g e (fuel + 1) p tape = DE_constraint_round g e fuel (constraintLoop g e fuel) p tape := by
  rw [constraintLoop]; rfl
/-- C08: a round of DE's / GA's `_constraint_loop` returns exactly on a POSITIVE verdict - with the position that was tested -; a round
    that goes round again has consumed a negative verdict and the draws of one `move_climb`, so the tape is strictly shorter -/
theorem de_constraint_round_progress (g : Geo) (e : Rat) (fuel : Nat) (again : Pos → Tape → Except Err (Pos × Tape)) (p : Pos) (tape : Tape) :
    (∀ t1, askFeas p tape = .ok (true, t1) → DE_constraint_round g e fuel again p tape = .ok (p, t1)) ∧
    (∀ t1 q t2, askFeas p tape = .ok (false, t1) → moveClimb g (some p) (some e) fuel t1 = .ok (q, t2) →
      DE_constraint_round g e fuel again p tape = again q t2 ∧ t2.length < tape.length ∧ tape = Draw.feas p false :: t1) := by
  refine ⟨fun t1 h1 => ?_, fun t1 q t2 h1 h2 => ?_⟩
  · simp [DE_constraint_round, bind, Except.bind, pure, Except.pure, h1]
  · obtain ⟨hl, ht⟩ := GFO.Gen.Core.askFeas_len h1
    have hs := (moveClimb_spec h2).1.length_le
    refine ⟨?_, by omega, ht⟩
    simp [DE_constraint_round, bind, Except.bind, h1, h2]

/-- C02 / C08 for the loop as a whole (by induction over the rounds, through the generated round function): whatever position the
    constraint loop returns was TESTED on this tape with a positive verdict - the loop has no exit that skips the constraint test -/
theorem de_constraint_loop_returns_tested (g : Geo) (e : Rat) (fuel : Nat) (p q : Pos) (tape rest : Tape)
    (h : constraintLoop g e fuel p tape = .ok (q, rest)) : Draw.feas q true ∈ tape := by
  induction fuel generalizing p tape with
  | zero => simp [constraintLoop] at h
  | succ n ih =>
    rw [de_constraint_loop_unfold] at h
    cases h1 : askFeas p tape with
    | error er => simp [DE_constraint_round, bind, Except.bind, h1] at h
    | ok a =>
      obtain ⟨ok, t1⟩ := a
      obtain ⟨_, ht⟩ := GFO.Gen.Core.askFeas_len h1
      cases ok with
      | true =>
        rw [(de_constraint_round_progress g e n _ p tape).1 t1 h1] at h
        simp only [Except.ok.injEq, Prod.mk.injEq] at h
        obtain ⟨rfl, rfl⟩ := h
        rw [ht]; exact List.mem_cons_self
      | false =>
        cases h2 : moveClimb g (some p) (some e) n t1 with
        | error er => simp [DE_constraint_round, bind, Except.bind, h1, h2] at h
        | ok b =>
          obtain ⟨q', t2⟩ := b
          rw [((de_constraint_round_progress g e n _ p tape).2 t1 q' t2 h1 h2).1] at h
          have hm := ih q' t2 h
          have hs := (moveClimb_spec h2).1
          rw [ht]
          exact List.mem_cons_of_mem _ (hs.subset hm)

theorem de_iterate_eq (cfg : DECfg) (s : PopSt) : DE_iterate cfg s = deIterate cfg s := rfl
theorem de_init_pos_eq (cfg : DECfg) (s : PopSt) : DE_init_pos cfg s = ptInitPos s := rfl
theorem de_evaluate_eq (cfg : DECfg) (s : PopSt) (score : F) : DE_evaluate cfg s score = psoEvaluate cfg.member s score := rfl
theorem de_backend_steps (cfg : DECfg) :
    (deBackend cfg).iterate = DE_iterate cfg ∧ (deBackend cfg).initPos = DE_init_pos cfg ∧ (deBackend cfg).evaluate = DE_evaluate cfg :=
  ⟨rfl, rfl, rfl⟩

/-! GeneticAlgorithmOptimizer -/
theorem ga_offspring_unfold (cfg : GACfg) (parents : List Pos) (n : Nat) (acc : List Pos) (tape : Tape) :
    gaOffspring cfg parents (n + 1) acc tape = GA_offspring_round cfg parents (gaOffspring cfg parents n) acc tape := by
  rw [gaOffspring]; rfl
theorem ga_cross_branch_eq (cfg : GACfg) (g : GASt) (cur : Nat) (tape : Tape) : GA_cross_branch cfg g cur tape = gaCross cfg g cur tape := rfl
theorem ga_iterate_eq (cfg : GACfg) (g : GASt) : GA_iterate cfg g = gaIterate cfg g := rfl
theorem ga_backend_steps (cfg : GACfg) : (gaBackend cfg).iterate = GA_iterate cfg := rfl

/-- the three backends run the generated steps -/
theorem pt_backend_steps (cfg : PTCfg) :
    (ptBackend cfg).iterate = PT_iterate cfg ∧ (ptBackend cfg).initPos = PT_init_pos cfg ∧ (ptBackend cfg).evaluate = PT_evaluate cfg :=
  ⟨rfl, rfl, by funext s score; exact (pt_evaluate_eq cfg s score).symm⟩
theorem pso_backend_steps (cfg : LocalCfg) :
    (psoBackend cfg).iterate = PSO_iterate cfg ∧ (psoBackend cfg).initPos = PSO_init_pos cfg ∧ (psoBackend cfg).evaluate = PSO_evaluate cfg :=
  ⟨rfl, rfl, rfl⟩
theorem spiral_backend_steps (cfg : LocalCfg) :
    (spiralBackend cfg).iterate = Spiral_iterate cfg ∧ (spiralBackend cfg).initPos = Spiral_init_pos cfg ∧
      (spiralBackend cfg).evaluate = Spiral_evaluate cfg := ⟨rfl, rfl, rfl⟩

end GFO.Gen.PopIt
