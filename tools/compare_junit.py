#!/usr/bin/env python3
"""usage: compare_junit.py <junit.xml>  - do all tests of /root/.vp/BASELINE.json's stable_pass list pass in this run?
(used to confirm that a seeded change keeps the pinned suite green; ids are `<classname>::<name>` as in the baseline)"""
import json, sys, xml.etree.ElementTree as ET
base = set(json.load(open("/root/.vp/BASELINE.json"))["stable_pass"])
passed, failed = set(), set()
for tc in ET.parse(sys.argv[1]).getroot().iter("testcase"):
    tid = (tc.get("classname") or "") + "::" + (tc.get("name") or "")
    if tc.find("failure") is not None or tc.find("error") is not None:
        failed.add(tid)
    elif tc.find("skipped") is None:
        passed.add(tid)
passed -= failed
missing = sorted(base - passed)
print(f"baseline stable tests: {len(base)}; passing in this run: {len(base & passed)}; not passing: {len(missing)}; failed overall: {len(failed)}")
for m in missing[:20]:
    print("  NOT PASSING:", m)
sys.exit(1 if missing else 0)
