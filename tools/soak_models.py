import sys, json
sys.path.insert(0,'/verif')
from harness import common as C, loc, gen
from harness.checks import bkgen, localgen
from collections import Counter
tag=sys.argv[1]; n=int(sys.argv[2])
r=C.rng("soak-all-"+tag)
RUN=[]
for name in loc.KIND: RUN.append((name, loc.run_local_scenario))
RUN.append(("GridSearchOptimizer", loc.run_grid_scenario))
for name in loc.POP: RUN.append((name, loc.run_pop_scenario))
RUN += [("PatternSearch", loc.run_pattern_scenario), ("PowellsMethod", loc.run_powell_scenario), ("DownhillSimplexOptimizer", loc.run_simplex_scenario),
        ("DirectAlgorithm", loc.run_direct_scenario)]
for name in loc.SMBO3: RUN.append((name, loc.run_smbo_scenario))
bad=[]; c=Counter()
for name, runner in RUN:
    specs=[]
    for _ in range(n):
        cp=r.choice([0.0,0.5,1.0]); nf=r.choice([0.0,0.3,1.0])
        kw=dict(smbo_iters=25) if name=="DirectAlgorithm" else {}
        sp=bkgen.scenario(r,name,constraint_p=cp,nonfinite_p=nf, **kw)
        if name=="ParallelTemperingOptimizer": sp["opt_kwargs"]["n_iter_swap"]=r.choice([1,2,5,10])
        if r.random()<0.2: sp["initialize"]={"random": r.choice([1,1,2,3])}
        specs.append(sp)
    batch = loc.run_local_batch if runner is loc.run_local_scenario else (lambda s, rn=runner: loc.run_batch(s, rn))
    for s,o in batch(specs):
        c[name]+=1
        if o["diff"] is not None:
            bad.append(dict(case=s, diff=o["diff"]))
print(tag, sum(c.values()), "bad", len(bad))
if bad:
    json.dump(bad, open(f"/tmp/soak_models_bad_{tag}.json","w"))
    for b in bad[:6]: print(b["case"]["opt"], json.dumps(b["diff"])[:300])
