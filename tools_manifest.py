#!/usr/bin/env python3
"""Regenerates MANIFEST.json from the table below (kept valid at all times)."""
import json, os
HERE = os.path.dirname(os.path.abspath(__file__))
BASE_NOTE = ("Trusted: Lean 4.33.0 kernel (+ propext, Classical.choice, Quot.sound only; audited per theorem each run), the hand-written "
             "model where the correspondence did not exercise it, the Python harness and native driver I/O glue, the oracle assumptions "
             "of DESIGN 3.3 (objective/constraint determinism, RNG contracts, float expressions, sklearn/scipy, numpy/pandas containers).")
CHECKS = {}
def claim(pid, text, note, technique, ref):
    CHECKS[pid] = dict(property_id=pid, quick_cmd=f"./check {pid} --tier quick", thorough_cmd=f"./check {pid} --tier thorough",
                       evidence_file=f"/verif/evidence/{pid}.json", replay_cmd_template=f"./check {pid} --replay {{path}}",
                       engine="lean4-model+correspondence",
                       level_claimed=dict(category="proof", text=text, design_ref=ref), level_note=note + " " + BASE_NOTE, technique=technique)
NOT_YET = {}
exec(open(os.path.join(HERE, "manifest_table.py")).read())
props = [json.loads(l)["id"] for l in open(os.path.join(HERE, "properties.jsonl"))]
man = dict(version=1, setup_cmd="cd /verif && ./check --setup",
           hooks=dict(guard="GFO_VERIF_HARNESS", enable="no source hooks: the harness wraps instance attributes and module globals from outside; GFO_VERIF_HARNESS=1 is set by ./check for the harness only",
                      baseline_off_cmd="cd /repo && /venv/bin/python -m pytest -ra -q -p no:cacheprovider --timeout=900 --continue-on-collection-errors",
                      source_commits=[], add_only=True),
           engines=[dict(name="lean4-model+correspondence", path="/verif/lean , /verif/harness", serves_properties=sorted(CHECKS),
                         kind_free_text="Lean 4 model of GFO (driver exact, backends as control skeletons over kernels) with property theorems; tied to /repo by a differential correspondence harness (native Lean driver, line protocol) and by translators regenerating Lean tables from the source")],
           checks=[CHECKS[p] for p in props if p in CHECKS],
           notes="See DESIGN.md. known_findings.json lists recorded findings and the fix: commits made in /repo.",
           not_applicable=[dict(property_id=p, reason=NOT_YET.get(p, "check not built yet in this session (planned: see DESIGN.md section 5); not claimed until its theorems and correspondence exist")) for p in props if p not in CHECKS])
json.dump(man, open(os.path.join(HERE, "MANIFEST.json"), "w"), indent=1)
print("claimed:", sorted(CHECKS), "not claimed:", [p for p in props if p not in CHECKS])
